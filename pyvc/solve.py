"""Discharging obligations: z3 (API) first, cvc5 / z3-4.8 (SMT-LIB2 CLI) on `unknown`."""
from __future__ import annotations

import os
import subprocess
import tempfile
import time

import z3

from . import axioms

PROVED, REFUTED, UNDECIDED = "PROVED", "REFUTED", "UNDECIDED"


class Verdict:
    def __init__(self, status, backend, ms, model=None, reason="", smt2=None):
        self.status, self.backend, self.ms, self.model, self.reason, self.smt2 = status, backend, ms, model, reason, smt2

    def as_dict(self):
        return {"status": self.status, "backend": self.backend, "ms": round(self.ms, 1), "reason": self.reason}


def _model_dict(m):
    out = {}
    for d in m.decls():
        if d.arity() == 0:
            v = m[d]
            try:
                if z3.is_int_value(v):
                    out[d.name()] = v.as_long()
                elif z3.is_rational_value(v):
                    out[d.name()] = f"{v.numerator_as_long()}/{v.denominator_as_long()}"
                elif z3.is_algebraic_value(v):
                    a = v.approx(12)
                    out[d.name()] = f"{a.numerator_as_long()}/{a.denominator_as_long()}"
                elif z3.is_true(v):
                    out[d.name()] = True
                elif z3.is_false(v):
                    out[d.name()] = False
                else:
                    out[d.name()] = str(v)
            except Exception:  # pragma: no cover
                out[d.name()] = str(v)
        elif d.arity() <= 4 and not d.name().startswith(("SUM", "ack!")):
            # function interpretation (symbolic input arrays are uninterpreted functions of their indices)
            try:
                fi = m[d]
                ents = []
                for k in range(min(fi.num_entries(), 64)):
                    e = fi.entry(k)
                    ents.append([_val(e.arg_value(j)) for j in range(e.num_args())] + [_val(e.value())])
                out[d.name()] = {"__func__": ents, "else": _val(fi.else_value())}
            except Exception:  # pragma: no cover
                pass
    return out


def _val(v):
    if v is None:
        return None
    if z3.is_int_value(v):
        return v.as_long()
    if z3.is_rational_value(v):
        return f"{v.numerator_as_long()}/{v.denominator_as_long()}"
    if z3.is_algebraic_value(v):
        a = v.approx(12)
        return f"{a.numerator_as_long()}/{a.denominator_as_long()}"
    if z3.is_true(v):
        return True
    if z3.is_false(v):
        return False
    return str(v)


def to_smt2(formulas, logic=None):
    s = z3.Solver()
    for f in formulas:
        s.add(f)
    txt = s.to_smt2()
    if logic:
        txt = f"(set-logic {logic})\n" + txt
    return txt


def run_cli(cmd, smt2, timeout_s):
    with tempfile.NamedTemporaryFile("w", suffix=".smt2", delete=False, dir=os.environ.get("PYVC_TMP")) as f:
        f.write(smt2)
        path = f.name
    try:
        r = subprocess.run(cmd + [path], capture_output=True, text=True, timeout=timeout_s + 5)
        out = r.stdout.strip().splitlines()
        return out[0].strip() if out else "unknown"
    except subprocess.TimeoutExpired:
        return "timeout"
    finally:
        os.unlink(path)


def ackermannize(formulas, mapping=None):
    """replace every uninterpreted-function application by a fresh constant and add the functional
    consistency constraints (equisatisfiable); makes mixed UF+NRA problems pure arithmetic"""
    import itertools
    cache = {}
    apps = {}   # decl name -> list of (new_args, const)
    counter = [0]

    def walk(e):
        i = e.get_id()
        if i in cache:
            return cache[i]
        if z3.is_quantifier(e):
            raise ValueError("quantifier")
        if not z3.is_app(e) or e.num_args() == 0:
            cache[i] = e
            return e
        kids = [walk(c) for c in e.children()]
        d = e.decl()
        if d.kind() == z3.Z3_OP_UNINTERPRETED:
            lst = apps.setdefault(d.name(), [])
            for args, c in lst:
                if all(a.eq(b) for a, b in zip(args, kids)):
                    cache[i] = c
                    return c
            counter[0] += 1
            c = z3.Const(f"ack!{d.name()}!{counter[0]}", e.sort())
            lst.append((kids, c))
            cache[i] = c
            return c
        r = d(*kids)
        cache[i] = r
        return r
    import sys
    sys.setrecursionlimit(max(sys.getrecursionlimit(), 50000))
    out = [walk(f) for f in formulas]
    for name, lst in apps.items():
        if len(lst) > 60:
            raise ValueError("too many applications")
        for (a1, c1), (a2, c2) in itertools.combinations(lst, 2):
            out.append(z3.Implies(z3.And(*[x == y for x, y in zip(a1, a2)]), c1 == c2))
    if mapping is not None:
        mapping.update(apps)
    return out


def _has_int(formulas):
    seen = set()
    stack = list(formulas)
    while stack:
        e = stack.pop()
        if e.get_id() in seen:
            continue
        seen.add(e.get_id())
        if z3.is_int(e):
            return True
        stack.extend(e.children())
    return False


def check_nlsat(formulas, timeout_s):
    """pure nonlinear real arithmetic via ackermannisation + nlsat"""
    mapping = {}
    try:
        fs = ackermannize(formulas, mapping)
    except ValueError:
        return "unknown", None
    if _has_int(fs):
        s = z3.Solver()
    else:
        s = z3.Tactic("qfnra-nlsat").solver()
    s.set("timeout", int(timeout_s * 1000))
    for f in fs:
        s.add(f)
    try:
        r = s.check()
    except z3.Z3Exception:
        return "unknown", None
    if r == z3.unsat:
        return "unsat", None
    if r == z3.sat:
        m = s.model()
        md = _model_dict(m)
        # map the ackermann constants back to function entries
        for name, lst in mapping.items():
            if name.startswith("SUM"):
                continue
            ents = []
            for args, c in lst[:64]:
                try:
                    ents.append([_val(m.eval(a, model_completion=True)) for a in args] + [_val(m.eval(c, model_completion=True))])
                except Exception:  # pragma: no cover
                    pass
            md[name] = {"__func__": ents, "else": None}
        md = {k: v for k, v in md.items() if not k.startswith("ack!")}
        return "sat", md
    return "unknown", None


def _in_child(fn, timeout_s, stop=None):
    """run fn() in a forked child with a hard wall-clock limit (z3's own timeout is not always honoured
    inside nonlinear preprocessing); returns fn's JSON-able result or ("timeout", None).  `stop()` is polled twice a second:
    when it turns true (another back end of the portfolio has answered) the child is killed and ("stopped", None) returned."""
    import json
    import select
    import signal
    r, w = os.pipe()
    pid = os.fork()
    if pid == 0:
        try:
            os.close(r)
            try:
                res = fn()
            except BaseException as e:  # noqa
                res = ("error:" + type(e).__name__, None)
            data = json.dumps(res).encode()
            os.write(w, data)
        finally:
            os._exit(0)
    os.close(w)
    buf = b""
    deadline = time.time() + timeout_s
    try:
        while True:
            left = deadline - time.time()
            if left <= 0:
                os.kill(pid, signal.SIGKILL)
                return "timeout", None
            rd, _, _ = select.select([r], [], [], left if stop is None else min(left, 0.5))
            if not rd:
                if stop is not None:
                    if stop():
                        os.kill(pid, signal.SIGKILL)
                        return "stopped", None
                    if deadline - time.time() > 0:
                        continue
                os.kill(pid, signal.SIGKILL)
                return "timeout", None
            chunk = os.read(r, 1 << 16)
            if not chunk:
                break
            buf += chunk
    finally:
        os.close(r)
        try:
            os.waitpid(pid, 0)
        except ChildProcessError:
            pass
    if not buf:
        return "unknown", None
    res = json.loads(buf.decode())
    return res[0], res[1]


def _check_default(formulas, timeout_s):
    s = z3.Solver()
    s.set("timeout", int(timeout_s * 1000))
    for f in formulas:
        s.add(f)
    r = s.check()
    if r == z3.unsat:
        return "unsat", None
    if r == z3.sat:
        return "sat", _model_dict(s.model())
    return "unknown", None


def check_formulas(formulas, timeout_s=10, want_model=True, second=True):
    """satisfiability of the conjunction; returns (result, model_dict|None, backend, ms).
    Strategy: pure-real problems go to nlsat after ackermannisation first (complete for QF_NRA), mixed
    problems to the default solver first; every attempt runs in a child process with a hard time limit."""
    t0 = time.time()
    has_int = _has_int(formulas)
    attempts = []
    if has_int:
        attempts = [("z3-5.1", lambda: _check_default(formulas, timeout_s), timeout_s),
                    ("z3-5.1-nlsat(ackermannized)", lambda: check_nlsat(formulas, timeout_s), timeout_s)]
    else:
        attempts = [("z3-5.1-nlsat(ackermannized)", lambda: check_nlsat(formulas, timeout_s), timeout_s),
                    ("z3-5.1", lambda: _check_default(formulas, max(1, timeout_s / 2)), max(1, timeout_s / 2))]
    # cheap first try in-process for trivial queries (no fork): 150 ms budget
    s = z3.Solver()
    s.set("timeout", 150)
    for f in formulas:
        s.add(f)
    try:
        r = s.check()
    except z3.Z3Exception:
        r = z3.unknown
    if r == z3.unsat:
        return "unsat", None, "z3-5.1", (time.time() - t0) * 1000
    if r == z3.sat:
        return "sat", (_model_dict(s.model()) if want_model else None), "z3-5.1", (time.time() - t0) * 1000
    # portfolio: cvc5 works on the same query while the z3 attempts run (a query that z3 5.1 gives up on after its whole budget was
    # often answered by cvc5 in seconds: sequential fall-back made such obligations slow and sensitive to machine load)
    cv = {}
    th = None
    smt2 = None
    if second and timeout_s >= 4:
        import threading
        smt2 = to_smt2(formulas)

        def _cv():
            cv["r"] = run_cli(["/usr/bin/cvc5", "--tlimit", str(int(timeout_s * 1000))], smt2, timeout_s)
        th = threading.Thread(target=_cv, daemon=True)
        th.start()
    for name, fn, tl in attempts:
        res, model = _in_child(fn, tl + 2, stop=(lambda: cv.get("r") == "unsat") if th is not None else None)
        if res == "unsat":
            return "unsat", None, name, (time.time() - t0) * 1000
        if res == "sat":
            return "sat", model, name, (time.time() - t0) * 1000
        if res == "stopped":
            return "unsat", None, "cvc5-1.0.3", (time.time() - t0) * 1000
    if second:
        if smt2 is None:
            smt2 = to_smt2(formulas)
        if th is not None:
            th.join(timeout_s + 6)
            res = cv.get("r", "unknown")
        else:
            res = run_cli(["/usr/bin/cvc5", "--tlimit", str(int(timeout_s * 1000))], smt2, timeout_s)
        if res == "unsat":
            return "unsat", None, "cvc5-1.0.3", (time.time() - t0) * 1000
        res = run_cli(["/usr/bin/z3", f"-T:{int(timeout_s)}"], smt2, timeout_s)
        if res == "unsat":
            return "unsat", None, "z3-4.8.12", (time.time() - t0) * 1000
        return "unknown", None, "z3-5.1+cvc5+z3-4.8", (time.time() - t0) * 1000
    return "unknown", None, "z3-5.1", (time.time() - t0) * 1000


def _symbols(e, cache):
    i = e.get_id()
    if i in cache:
        return cache[i]
    out = set()
    stack = [e]
    seen = set()
    while stack:
        x = stack.pop()
        if x.get_id() in seen:
            continue
        seen.add(x.get_id())
        if z3.is_quantifier(x):
            stack.append(x.body())
            continue
        if z3.is_app(x):
            d = x.decl()
            if d.kind() == z3.Z3_OP_UNINTERPRETED:
                out.add(d.name())
            stack.extend(x.children())
    cache[i] = out
    return out


def slice_assumptions(assumptions, goal):
    """cone of influence: keep the assumptions that (transitively) share an uninterpreted symbol with the
    goal.  Dropping assumptions is sound for proving (the query only gets weaker)."""
    cache = {}
    rel = set(_symbols(goal, cache))
    if not rel:
        # a constant goal (infeasibility of a path: goal `False`) has no cone of influence: every assumption matters
        return list(assumptions)
    rest = [(a, _symbols(a, cache)) for a in assumptions]
    keep = []
    changed = True
    while changed:
        changed = False
        nxt = []
        for a, sy in rest:
            if not sy or (sy & rel):
                keep.append(a)
                if not sy <= rel:
                    rel |= sy
                    changed = True
            else:
                nxt.append((a, sy))
        rest = nxt
    return keep


_NL = {}
_NL_CACHE = {}
_NL_SIMP = {}


def abstract_nonlinear(formulas):
    """replace every product of >= 2 non-numeral factors, every division by a non-numeral and every power by an
    application of an uninterpreted function of its (abstracted) arguments.  The abstraction forgets everything about
    multiplication except that it is a function, so `unsat` of the abstraction implies `unsat` of the original
    (sound for proving; a `sat` answer means nothing).  Makes goals that are equal up to substitution / case
    analysis (loop step checks over large rational terms) pure EUF + linear arithmetic."""
    cache = _NL_CACHE      # ast id -> (term kept alive, abstraction); shared by all queries of the process

    def fn(kind, sorts, rng):
        key = (kind, tuple(str(x) for x in sorts), str(rng))
        if key not in _NL:
            _NL[key] = z3.Function(f"NL{kind}{len(_NL)}", *sorts, rng)
        return _NL[key]

    def is_num(e):
        return z3.is_int_value(e) or z3.is_rational_value(e)

    def split_coef(e):
        """e == coef * rest (rest None when e is a numeral); only a leading numeral factor of a product is split off"""
        from fractions import Fraction
        def val(c):
            return Fraction(c.as_long()) if z3.is_int_value(c) else Fraction(c.numerator_as_long(), c.denominator_as_long())
        if is_num(e):
            return val(e), None
        if z3.is_app(e) and e.decl().kind() == z3.Z3_OP_MUL:
            ks = e.children()
            nums = [c for c in ks if is_num(c)]
            rest = [c for c in ks if not is_num(c)]
            if nums and rest:
                q = Fraction(1)
                for c in nums:
                    q *= val(c)
                r = rest[0]
                for c in rest[1:]:
                    r = r * c
                return q, r
        return Fraction(1), e

    def walk(e):
        i = e.get_id()
        if i in cache:
            return cache[i][1]
        if z3.is_quantifier(e) or not z3.is_app(e) or e.num_args() == 0:
            cache[i] = (e, e)
            return e
        kids = [walk(c) for c in e.children()]
        k = e.decl().kind()
        r = None
        if k == z3.Z3_OP_MUL:
            nums = [c for c in kids if is_num(c)]
            rest = [c for c in kids if not is_num(c)]
            if len(rest) >= 2:
                rest = sorted(rest, key=lambda t: t.sexpr())
                r = fn("mul", [c.sort() for c in rest], e.sort())(*rest)
                for c in nums:
                    r = c * r
        elif k == z3.Z3_OP_DIV and not is_num(kids[1]):
            # (c x) / (e y) = (c / e) (x / y) for numerals c, e != 0: numeral factors are kept outside the abstraction
            cn, xn = split_coef(kids[0])
            cd, xd = split_coef(kids[1])
            if xn is None:
                xn = z3.RealVal(1)
            if xd is None or cd == 0:
                r = fn("div", [c.sort() for c in kids], e.sort())(*kids)
            else:
                r = fn("div", [xn.sort(), xd.sort()], e.sort())(xn, xd)
                q = cn / cd
                if q != 1:
                    r = z3.RealVal(str(q)) * r
        elif k in (z3.Z3_OP_IDIV, z3.Z3_OP_MOD) and not is_num(kids[1]):
            r = fn({z3.Z3_OP_IDIV: "idiv", z3.Z3_OP_MOD: "mod"}[k], [c.sort() for c in kids], e.sort())(*kids)
        elif k == z3.Z3_OP_POWER:
            r = fn("pow", [c.sort() for c in kids], e.sort())(*kids)
        if r is None:
            r = e.decl()(*kids)
        cache[i] = (e, r)
        return r
    import sys
    sys.setrecursionlimit(max(sys.getrecursionlimit(), 50000))
    out = []
    for f in formulas:
        i = f.get_id()
        if i not in _NL_SIMP:
            _NL_SIMP[i] = (f, z3.simplify(f))
        out.append(walk(_NL_SIMP[i][1]))
    return out


def _try_uf_abstraction(formulas, timeout_s):
    try:
        fs = abstract_nonlinear(formulas)
    except Exception:  # pragma: no cover
        return False
    s = z3.Solver()
    s.set("timeout", int(timeout_s * 1000))
    for f in fs:
        s.add(f)
    try:
        return s.check() == z3.unsat
    except z3.Z3Exception:  # pragma: no cover
        return False


NL_MUL = z3.Function("nl!mul", z3.RealSort(), z3.RealSort(), z3.RealSort())
NL_MULI = z3.Function("nl!muli", z3.IntSort(), z3.IntSort(), z3.IntSort())
NL_INV = z3.Function("nl!inv", z3.RealSort(), z3.RealSort())
NL_POW = z3.Function("nl!pow", z3.RealSort(), z3.RealSort(), z3.RealSort())


def generalise_products(formulas):
    """Generalisation step: multiplication of non-numeral factors and the reciprocal of a non-numeral are replaced by
    *uninterpreted* functions (x*y -> nl!mul(x,y) with the factors in a canonical order, x/y -> nl!mul(x, nl!inv(y)),
    1/y -> nl!inv(y)); before that, if-then-else is lifted out of products and quotients.  Every model of the original
    formulas is a model of the abstracted ones (interpret nl!mul, nl!inv as * and 1/.), so if the abstracted
    conjunction is unsat, the original is unsat (universal generalisation)."""
    cache = {}
    comm = {}

    def nlmul(a, b):
        r = NL_MUL(a, b)
        if not a.eq(b):
            comm[r.get_id()] = r == NL_MUL(b, a)       # commutativity instance (true of *)
        return r

    def is_num(e):
        return z3.is_int_value(e) or z3.is_rational_value(e)

    def real(e):
        return z3.ToReal(e) if z3.is_int(e) else e

    factors = {}      # id of an abstracted product -> (term, its sorted non-numeral factors)   (flattening: products are AC)

    def mk_mul(kids, sort, budget=[0]):
        for n, k in enumerate(kids):
            if z3.is_app(k) and k.decl().kind() == z3.Z3_OP_ITE and budget[0] < 20000:
                budget[0] += 1
                c, x, y = k.children()
                return z3.If(c, mk_mul(kids[:n] + [x] + kids[n + 1:], sort), mk_mul(kids[:n] + [y] + kids[n + 1:], sort))
        flat = []
        for k in kids:
            if k.get_id() in factors:
                flat.extend(factors[k.get_id()][1])
            elif z3.is_app(k) and k.decl().kind() == z3.Z3_OP_MUL and k.num_args() == 2 and is_num(k.arg(0)) and k.arg(1).get_id() in factors:
                flat.append(k.arg(0))
                flat.extend(factors[k.arg(1).get_id()][1])
            else:
                flat.append(k)
        nums = [k for k in flat if is_num(k)]
        rest = sorted([k for k in flat if not is_num(k)], key=lambda t: t.get_id())
        if not rest:
            r = None
        elif sort == z3.IntSort():
            r = rest[0]
            for k in rest[1:]:
                r = NL_MULI(r, k)
        else:
            r = real(rest[0])
            for k in rest[1:]:
                r = nlmul(r, real(k))
        if r is not None and len(rest) > 1:
            factors[r.get_id()] = (r, rest)
        for nm in nums:
            r = nm if r is None else nm * r
        return r

    def mk_inv(y, budget=[0]):
        if z3.is_app(y) and y.decl().kind() == z3.Z3_OP_ITE and budget[0] < 20000:
            budget[0] += 1
            c, a, b = y.children()
            return z3.If(c, mk_inv(a), mk_inv(b))
        if is_num(y):
            return 1 / real(y)
        return NL_INV(real(y))

    def walk(e):
        i = e.get_id()
        r = cache.get(i)
        if r is not None:
            return r
        if z3.is_quantifier(e) or not z3.is_app(e) or e.num_args() == 0:
            cache[i] = e
            return e
        kids = [walk(c) for c in e.children()]
        k = e.decl().kind()
        if k == z3.Z3_OP_MUL:
            r = mk_mul(kids, e.sort())
        elif k == z3.Z3_OP_DIV:
            if is_num(kids[1]):
                r = kids[0] / kids[1]
            elif is_num(kids[0]) and z3.simplify(real(kids[0]) == 1).eq(z3.BoolVal(True)):
                r = mk_inv(kids[1])
            else:
                r = mk_mul([real(kids[0]), mk_inv(kids[1])], z3.RealSort())
        elif k == z3.Z3_OP_POWER:
            r = NL_POW(real(kids[0]), real(kids[1]))
        elif k == z3.Z3_OP_TO_REAL and z3.is_int_value(kids[0]):
            r = z3.RealVal(kids[0].as_long())
        else:
            r = e.decl()(*kids)
        cache[i] = r
        return r
    import sys
    sys.setrecursionlimit(max(sys.getrecursionlimit(), 50000))
    out = [walk(f) for f in formulas]
    return out + list(comm.values())[:4000]


def prove(assumptions, goal, timeout_s=10, opts=None, rounds=2):
    """PROVED iff assumptions ∧ axiom-instances ∧ ¬goal is unsat"""
    t0 = time.time()
    try:
        from . import ring
        if ring.ring_proves(goal, (opts or {}).get("rewrites") or ()):
            # the normaliser is trusted code: every identity it accepts without lemma rewrites is cross-checked by exact evaluation at
            # random rational points (independent code path); a disagreement is never a PROVED
            if not ((opts or {}).get("rewrites") or ()) and not ring.crosscheck_identity(goal, seed=(opts or {}).get("seed", 0)):
                return Verdict(UNDECIDED, "ring-normaliser", (time.time() - t0) * 1000,
                               reason="ENGINE-FAULT: the ring normaliser accepts the goal but exact evaluation at a random rational point falsifies it")
            return Verdict(PROVED, "ring-normaliser", (time.time() - t0) * 1000)
        if (opts or {}).get("ring_only") or (opts or {}).get("try_eval"):
            model = ring.refute_by_evaluation(list(assumptions), goal, seed=(opts or {}).get("seed", 0))
            if model is not None:
                return Verdict(REFUTED, "ring-normaliser+exact-evaluation", (time.time() - t0) * 1000, model=model,
                               reason="not an identity: the assumptions hold and the goal is false under the exact rational assignment in `model`")
            if (opts or {}).get("ring_only"):
                # short SMT attempt, for a counter-model only (assumptions with equalities defeat random evaluation)
                base = slice_assumptions(list(assumptions), goal) + [z3.Not(goal)]
                inst = axioms.saturate(base, rounds=1, opts=opts)
                res, model, backend, ms = check_formulas(base + inst, (opts or {}).get("refute_timeout", 4), second=False)
                if res == "sat":
                    return Verdict(REFUTED, backend, (time.time() - t0) * 1000, model=model, reason="sat (not a ring identity)")
                if res == "unsat":
                    return Verdict(PROVED, backend, (time.time() - t0) * 1000)
                return Verdict(UNDECIDED, "ring-normaliser", (time.time() - t0) * 1000, reason="not established by ring identities; no falsifying assignment found")
    except Exception:  # pragma: no cover  (the normaliser is an accelerator; SMT decides otherwise)
        if (opts or {}).get("ring_only"):
            return Verdict(UNDECIDED, "ring-normaliser", (time.time() - t0) * 1000, reason="ring normaliser failed")
    # a conjunction: conjuncts that are ring identities are discharged by the normaliser, only the rest goes to SMT
    try:
        if z3.is_and(goal) and not (opts or {}).get("ring_only"):
            from . import ring
            rest = [c for c in goal.children() if not ring.ring_proves(c, (opts or {}).get("rewrites") or ())]
            if not rest:
                return Verdict(PROVED, "ring-normaliser", (time.time() - t0) * 1000)
            if len(rest) < goal.num_args():
                goal = z3.And(*rest) if len(rest) > 1 else rest[0]
    except Exception:  # pragma: no cover
        pass
    if not (opts or {}).get("no_slice") and _symbols(goal, {}):
        # (a goal without symbols — `False` for an infeasibility obligation — has no cone of influence: keep everything)
        assumptions = slice_assumptions(list(assumptions), goal)
    base = [a for a in assumptions] + [z3.Not(goal)]
    if (opts or {}).get("uf_abstraction"):
        # cheapest attempt first: no axiom instances at all (index bounds, shape facts, equal-up-to-substitution goals)
        if _try_uf_abstraction(base, min(timeout_s, 2)):
            return Verdict(PROVED, "z3-5.1(nonlinear-terms-as-UF)", (time.time() - t0) * 1000)
    inst = axioms.saturate(base, rounds=int((opts or {}).get("rounds", rounds)), opts=opts)
    formulas = base + inst
    if (opts or {}).get("uf_abstraction"):
        # opt-in accelerator: nonlinear operators as uninterpreted functions (sound for `unsat`)
        if _try_uf_abstraction(formulas, min(timeout_s, (opts or {}).get("uf_abstraction_timeout", 5))):
            return Verdict(PROVED, "z3-5.1(nonlinear-terms-as-UF)", (time.time() - t0) * 1000)
    if (opts or {}).get("abstract_nl"):
        # sound accelerators: products / quotients of unknowns generalised to uninterpreted functions (an `unsat` of the
        # generalisation is an `unsat` of the original); two encodings, the cheaper one first when the caller expects the
        # goal to follow by linear arithmetic + congruence + Σ-extensionality only (abstract_only)
        only = (opts or {}).get("abstract_only")
        if only:
            if _try_uf_abstraction(formulas, min(timeout_s, 5)):
                return Verdict(PROVED, "z3-5.1(nonlinear-terms-as-UF)", (time.time() - t0) * 1000)
            # give up at once (UNDECIDED, never a verdict) and let the replay decide
            return Verdict(UNDECIDED, "z3-5.1(nonlinear-terms-as-UF)", (time.time() - t0) * 1000,
                           reason="not established with products as uninterpreted functions (abstract_only)")
        try:
            fa = generalise_products(formulas)
            s0 = z3.Solver()
            s0.set("timeout", int(min(timeout_s, 20) * 1000))
            for f in fa:
                s0.add(f)
            if s0.check() == z3.unsat:
                return Verdict(PROVED, "z3-5.1(products-generalised-to-UF)", (time.time() - t0) * 1000)
        except (z3.Z3Exception, RecursionError):
            pass
    res, model, backend, ms = check_formulas(formulas, timeout_s)
    if res == "unsat":
        return Verdict(PROVED, backend, ms)
    if res == "sat":
        from . import sigma
        if any(n in sigma.BY_DECL for n in axioms.collect_apps(formulas)):
            # Σ-functions are axiomatised by finitely many instances only: a model of the instances need not be a model of
            # the sums.  Not a refutation: the model is kept as a hint for the replay, the verdict is UNDECIDED.
            return Verdict(UNDECIDED, backend, ms, model=model,
                           reason="sat modulo the generated Σ-axiom instances only (the model may be spurious)")
        return Verdict(REFUTED, backend, ms, model=model, reason="sat")
    return Verdict(UNDECIDED, backend, ms, reason=res)


def satisfiable(formulas, timeout_s=5, opts=None):
    try:   # cheap: an exact rational assignment satisfying every formula (no solver involved)
        from . import ring
        m = ring.refute_by_evaluation(list(formulas), z3.BoolVal(False), tries=120)
        if m is not None:
            return "sat", m
    except Exception:  # pragma: no cover
        pass
    inst = axioms.saturate(list(formulas), rounds=1, opts=opts)
    res, model, backend, ms = check_formulas(list(formulas) + inst, timeout_s, second=False)
    return res, model
