"""Discharging obligations: z3 (API) first, cvc5 / z3-4.8 (SMT-LIB2 CLI) on `unknown`."""
from __future__ import annotations

import os
import subprocess
import tempfile
import time

import z3

from . import axioms

PROVED, REFUTED, UNDECIDED = "PROVED", "REFUTED", "UNDECIDED"


class Verdict:
    def __init__(self, status, backend, ms, model=None, reason="", smt2=None):
        self.status, self.backend, self.ms, self.model, self.reason, self.smt2 = status, backend, ms, model, reason, smt2

    def as_dict(self):
        return {"status": self.status, "backend": self.backend, "ms": round(self.ms, 1), "reason": self.reason}


def _model_dict(m):
    out = {}
    for d in m.decls():
        if d.arity() == 0:
            v = m[d]
            try:
                if z3.is_int_value(v):
                    out[d.name()] = v.as_long()
                elif z3.is_rational_value(v):
                    out[d.name()] = f"{v.numerator_as_long()}/{v.denominator_as_long()}"
                elif z3.is_algebraic_value(v):
                    a = v.approx(12)
                    out[d.name()] = f"{a.numerator_as_long()}/{a.denominator_as_long()}"
                elif z3.is_true(v):
                    out[d.name()] = True
                elif z3.is_false(v):
                    out[d.name()] = False
                else:
                    out[d.name()] = str(v)
            except Exception:  # pragma: no cover
                out[d.name()] = str(v)
    return out


def to_smt2(formulas, logic=None):
    s = z3.Solver()
    for f in formulas:
        s.add(f)
    txt = s.to_smt2()
    if logic:
        txt = f"(set-logic {logic})\n" + txt
    return txt


def run_cli(cmd, smt2, timeout_s):
    with tempfile.NamedTemporaryFile("w", suffix=".smt2", delete=False, dir=os.environ.get("PYVC_TMP")) as f:
        f.write(smt2)
        path = f.name
    try:
        r = subprocess.run(cmd + [path], capture_output=True, text=True, timeout=timeout_s + 5)
        out = r.stdout.strip().splitlines()
        return out[0].strip() if out else "unknown"
    except subprocess.TimeoutExpired:
        return "timeout"
    finally:
        os.unlink(path)


def ackermannize(formulas):
    """replace every uninterpreted-function application by a fresh constant and add the functional
    consistency constraints (equisatisfiable); makes mixed UF+NRA problems pure arithmetic"""
    import itertools
    cache = {}
    apps = {}   # decl name -> list of (new_args, const)
    counter = [0]

    def walk(e):
        i = e.get_id()
        if i in cache:
            return cache[i]
        if z3.is_quantifier(e):
            raise ValueError("quantifier")
        if not z3.is_app(e) or e.num_args() == 0:
            cache[i] = e
            return e
        kids = [walk(c) for c in e.children()]
        d = e.decl()
        if d.kind() == z3.Z3_OP_UNINTERPRETED:
            lst = apps.setdefault(d.name(), [])
            for args, c in lst:
                if all(a.eq(b) for a, b in zip(args, kids)):
                    cache[i] = c
                    return c
            counter[0] += 1
            c = z3.Const(f"ack!{d.name()}!{counter[0]}", e.sort())
            lst.append((kids, c))
            cache[i] = c
            return c
        r = d(*kids)
        cache[i] = r
        return r
    import sys
    sys.setrecursionlimit(max(sys.getrecursionlimit(), 50000))
    out = [walk(f) for f in formulas]
    for name, lst in apps.items():
        if len(lst) > 60:
            raise ValueError("too many applications")
        for (a1, c1), (a2, c2) in itertools.combinations(lst, 2):
            out.append(z3.Implies(z3.And(*[x == y for x, y in zip(a1, a2)]), c1 == c2))
    return out


def _has_int(formulas):
    seen = set()
    stack = list(formulas)
    while stack:
        e = stack.pop()
        if e.get_id() in seen:
            continue
        seen.add(e.get_id())
        if z3.is_int(e):
            return True
        stack.extend(e.children())
    return False


def check_nlsat(formulas, timeout_s):
    """pure nonlinear real arithmetic via ackermannisation + nlsat"""
    try:
        fs = ackermannize(formulas)
    except ValueError:
        return "unknown", None
    if _has_int(fs):
        s = z3.Solver()
    else:
        s = z3.Tactic("qfnra-nlsat").solver()
    s.set("timeout", int(timeout_s * 1000))
    for f in fs:
        s.add(f)
    try:
        r = s.check()
    except z3.Z3Exception:
        return "unknown", None
    if r == z3.unsat:
        return "unsat", None
    if r == z3.sat:
        return "sat", _model_dict(s.model())
    return "unknown", None


def check_formulas(formulas, timeout_s=10, want_model=True, second=True):
    """satisfiability of the conjunction; returns (result, model_dict|None, backend, ms)"""
    t0 = time.time()
    s = z3.Solver()
    s.set("timeout", int(timeout_s * 1000))
    s.set("timeout", int(max(1, timeout_s / 4) * 1000))
    for f in formulas:
        s.add(f)
    r = s.check()
    ms = (time.time() - t0) * 1000
    if r == z3.unsat:
        return "unsat", None, "z3-5.1", ms
    if r == z3.sat:
        return "sat", (_model_dict(s.model()) if want_model else None), "z3-5.1", ms
    r2, model = check_nlsat(formulas, timeout_s)
    ms = (time.time() - t0) * 1000
    if r2 == "unsat":
        return "unsat", None, "z3-5.1-nlsat(ackermannized)", ms
    if r2 == "sat":
        return "sat", model, "z3-5.1-nlsat(ackermannized)", ms
    if second:
        smt2 = to_smt2(formulas)
        t1 = time.time()
        res = run_cli(["/usr/bin/cvc5", "--tlimit", str(int(timeout_s * 1000))], smt2, timeout_s)
        ms2 = (time.time() - t1) * 1000
        if res == "unsat":
            return "unsat", None, "cvc5-1.0.3", ms + ms2
        t1 = time.time()
        res = run_cli(["/usr/bin/z3", f"-T:{int(timeout_s)}"], smt2, timeout_s)
        ms3 = (time.time() - t1) * 1000
        if res == "unsat":
            return "unsat", None, "z3-4.8.12", ms + ms2 + ms3
        return "unknown", None, "z3-5.1+cvc5+z3-4.8", ms + ms2 + ms3
    return "unknown", None, "z3-5.1", ms


def prove(assumptions, goal, timeout_s=10, opts=None, rounds=2):
    """PROVED iff assumptions ∧ axiom-instances ∧ ¬goal is unsat"""
    base = [a for a in assumptions] + [z3.Not(goal)]
    inst = axioms.saturate(base, rounds=rounds, opts=opts)
    formulas = base + inst
    res, model, backend, ms = check_formulas(formulas, timeout_s)
    if res == "unsat":
        return Verdict(PROVED, backend, ms)
    if res == "sat":
        return Verdict(REFUTED, backend, ms, model=model, reason="sat")
    return Verdict(UNDECIDED, backend, ms, reason=res)


def satisfiable(formulas, timeout_s=5, opts=None):
    inst = axioms.saturate(list(formulas), rounds=1, opts=opts)
    res, model, backend, ms = check_formulas(list(formulas) + inst, timeout_s, second=False)
    return res, model
