"""Conformance replays: the concrete contract of every unit evaluated on the REAL code for seeded inputs, on every run.

This is validation, not proof (it is reported under `bounded`/`conformance` in the evidence and never counted in
obligations/discharged), but a failing input on the real code is a genuine violation whatever the proof says: it is how
changes that are invisible under assumption A1 (floats as reals) — e.g. `int(p / i)` rewritten as `int(p // i)` for periods
that are exact multiples of a non-representable interval — are still reported, with the failing input.
quick tier: one case per function under contract; thorough tier: every unit case.
"""
from __future__ import annotations

import json
import os
import subprocess
import tempfile
from concurrent.futures import ThreadPoolExecutor

VERIF = os.path.dirname(os.path.dirname(os.path.abspath(__file__)))
REPLAY_PY = os.environ.get("PYVC_REPLAY_PYTHON", "/venv/bin/python")


def _one(prop, unit, case, seed, repo, outdir):
    rec = {"property": prop, "obligation": f"{unit.name}[{case}]:conformance", "unit": f"{unit.name}[{case}]" if case else unit.name,
           "module": unit.module, "qualname": unit.qualname, "case": case, "status": "CONFORMANCE", "solver_output": [], "model": {},
           "seed": seed, "repo": repo}
    path = os.path.join(outdir, f"conformance_{abs(hash((unit.module, unit.qualname, unit.name, case))) % 10**10}.json")
    with open(path, "w") as f:
        json.dump(rec, f)
    try:
        r = subprocess.run([REPLAY_PY, os.path.join(VERIF, "replay.py"), path], capture_output=True, text=True, timeout=900)
    except subprocess.TimeoutExpired:
        return rec, path, {"ran": False, "error": "timeout"}
    res = None
    for line in r.stdout.splitlines():
        if line.startswith("REPLAY-RESULT "):
            res = json.loads(line[len("REPLAY-RESULT "):])
    if res is None:
        res = {"ran": False, "error": (r.stderr or r.stdout)[-500:]}
    rec["replay_result"] = res
    with open(path, "w") as f:
        json.dump(rec, f, indent=1, default=str)
    return rec, path, res


def run(prop, mod, tier, seed, repo, outdir, only=None, jobs=8):
    """-> (summary dict for the evidence, list of (unit label, replay path, result) that FAILED on the real code)"""
    todo = []
    seen_fn = set()
    for u in mod.UNITS:
        if getattr(u, "prop", prop) != prop and tier != "thorough":
            continue        # units re-run from another property's module are replayed by that property's own check
        for c in u.cases():
            label = f"{u.name}[{c}]" if c else u.name
            if only and only not in label:
                continue
            key = (u.module, u.qualname, getattr(u, "name", ""))
            if tier != "thorough" and key in seen_fn:
                continue
            seen_fn.add(key)
            todo.append((u, c))
    os.makedirs(outdir, exist_ok=True)
    results = []
    with ThreadPoolExecutor(max_workers=max(1, min(jobs, len(todo) or 1))) as ex:
        futs = [(u, c, ex.submit(_one, prop, u, c, seed, repo, outdir)) for u, c in todo]
        for u, c, f in futs:
            rec, path, res = f.result()
            results.append((f"{u.name}[{c}]" if c else u.name, path, res))
    failed = [(lbl, p, r) for lbl, p, r in results if r.get("failed")]
    not_run = [(lbl, r.get("error", "")) for lbl, p, r in results if not r.get("ran")]
    summary = {"kind": "conformance replay of the concrete contracts on the real code (validation, not proof)",
               "units_replayed": len(results), "failed": len(failed), "not_run": len(not_run),
               "inputs_searched": sum(int(r.get("searched") or 0) for _, _, r in results),
               "not_run_details": not_run[:5]}
    for lbl, p, r in results:
        if not r.get("failed") and os.path.exists(p):
            os.unlink(p)
    return summary, failed
