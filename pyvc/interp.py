"""Symbolic interpreter for the Python subset of DESIGN I.3, over the *real* ASTs of /repo.

The function bodies executed here are ``ast.FunctionDef`` nodes parsed from the files on disk at check
time.  Dropped by the extraction: docstrings, annotations, every call on the module-level ``logger``
(arguments are not evaluated), ``import`` statements inside/outside functions (names resolve through
the library table or the repo's own modules), ``del`` statements.
Anything outside the subset raises EngineError -> the function's verdict is UNDECIDED.
"""
from __future__ import annotations

import ast
import os
from fractions import Fraction

import z3

from . import arr as A
from . import sv
from .state import Content, State, cur, use_state
from .sv import SV, Cx, EngineError, is_conc, norm

REPO = os.environ.get("PYVC_REPO", "/repo")

# ----------------------------------------------------------------------------------------------
# values


class Ref:
    """reference to a mutable heap cell (list / dict / object / dataframe)"""
    __slots__ = ("sid", "kind", "cls")

    def __init__(self, sid, kind, cls=None):
        self.sid, self.kind, self.cls = sid, kind, cls

    def __repr__(self):
        return f"<{self.kind}#{self.sid}{' ' + self.cls.name if self.cls else ''}>"

    @property
    def content(self):
        return cur().heap[self.sid].data

    def set_content(self, data):
        c = cur().heap[self.sid]
        cur().heap[self.sid] = Content(c.kind, data, c.meta)


def new_list(items):
    return Ref(cur().alloc(Content("list", tuple(items))), "list")


def new_dict(d, unordered=False):
    """unordered=True: a mapping whose insertion order is an input the contract does not fix (see dict_order_observed)"""
    return Ref(cur().alloc(Content("dict", dict(d), {"unordered": True} if unordered else None)), "dict")


def dict_order_observed(ref, what):
    """called by every operation whose result depends on the insertion order of a dict (keys/values/items, iteration, list(d)).
    For a mapping declared `unordered` by the contract the order is an unquantified input: the engine does not pick one (that would
    prove order-dependent code for a single order only) but stops the path at an engine limit, and the replay decides."""
    if isinstance(ref, Ref) and ref.kind == "dict" and (cur().heap[ref.sid].meta or {}).get("unordered"):
        raise PyRaise("unresolved-callee", f"{what} observes the insertion order of a mapping whose order the contract leaves unspecified")


def new_obj(cls, attrs, frozen=False, built_by_contract=True):      # contracts build input objects; the engine passes False
    return Ref(cur().alloc(Content("obj", dict(attrs), {"frozen": frozen, "built_by_contract": built_by_contract})), "obj", cls)


def declared_attributes(cls):
    """names a real instance of the repo class carries: dataclass fields and every `self.<name>` assigned in a method"""
    cache = getattr(cls, "_declared_attrs", None)
    if cache is None:
        cache = {f[0] for f in getattr(cls, "fields", [])}
        for fn in getattr(cls, "methods", {}).values():
            a = fn.args.posonlyargs + fn.args.args
            if not a:
                continue
            me = a[0].arg
            for n in ast.walk(fn):
                tg = []
                if isinstance(n, ast.Assign):
                    tg = n.targets
                elif isinstance(n, (ast.AugAssign, ast.AnnAssign)):
                    tg = [n.target]
                for t in tg:
                    if isinstance(t, ast.Attribute) and isinstance(t.value, ast.Name) and t.value.id == me:
                        cache.add(t.attr)
        try:
            cls._declared_attrs = cache
        except Exception:  # noqa
            pass
    return cache


class ModVal:
    def __init__(self, name):
        self.name = name

    def __repr__(self):
        return f"<module {self.name}>"


class FuncVal:
    def __init__(self, module, node, bound=None, cls=None):
        self.module, self.node, self.bound, self.cls = module, node, bound, cls
        self.qualname = (cls.name + "." if cls else "") + node.name

    def __repr__(self):
        return f"<function {self.module.name}.{self.qualname}>"


class LambdaVal:
    def __init__(self, node, env, module):
        self.node, self.env, self.module = node, env, module


class ClassVal:
    def __init__(self, module, node):
        self.module, self.node, self.name = module, node, node.name
        self.methods = {n.name: n for n in node.body if isinstance(n, ast.FunctionDef)}
        self.decorators = [ast.unparse(d) for d in node.decorator_list]
        self.bases = [ast.unparse(b) for b in node.bases]
        self.is_enum = any(b.endswith("Enum") for b in self.bases)
        self.is_dataclass = any(d.startswith("dataclass") for d in self.decorators)
        self.frozen = any("frozen=True" in d for d in self.decorators)
        self.fields = []       # dataclass fields (name, default node | None)
        self.class_attrs = {}  # name -> node
        for n in node.body:
            if isinstance(n, ast.AnnAssign) and isinstance(n.target, ast.Name):
                self.fields.append((n.target.id, n.value))
            elif isinstance(n, ast.Assign) and len(n.targets) == 1 and isinstance(n.targets[0], ast.Name):
                self.class_attrs[n.targets[0].id] = n.value

    def __repr__(self):
        return f"<class {self.name}>"


class EnumMember:
    def __init__(self, cls, name, value):
        self.cls, self.name, self.value = cls, name, value

    def __repr__(self):
        return f"{self.cls.name}.{self.name}"

    def __eq__(self, o):
        return isinstance(o, EnumMember) and o.cls.name == self.cls.name and o.name == self.name

    def __hash__(self):
        return hash((self.cls.name, self.name))


class LibFunc:
    def __init__(self, name, fn):
        self.name, self.fn = name, fn

    def __repr__(self):
        return f"<lib {self.name}>"


class BoundLib:
    """method of a library/engine value: (name, receiver)"""
    def __init__(self, name, recv):
        self.name, self.recv = name, recv


class Dropped:
    """value of a dropped expression (logger)"""


DROPPED = Dropped()


# ----------------------------------------------------------------------------------------------
# control flow signals


class Fork(Exception):
    def __init__(self, cond):
        self.cond = cond


class PyRaise(Exception):
    """the interpreted program raises"""
    def __init__(self, exc_type, msg=""):
        self.exc_type, self.msg = exc_type, msg
        super().__init__(f"{exc_type}: {msg}")


class _Return(Exception):
    def __init__(self, value):
        self.value = value


class _Break(Exception):
    pass


class _Continue(Exception):
    pass


# ----------------------------------------------------------------------------------------------
# modules


MODULE_VARIANTS = {}   # module name -> 'try' | 'except': which arm of a module-level try/except ImportError is live


class Module:
    def __init__(self, name, path, variant="try"):
        self.name, self.path, self.variant = name, path, variant
        with open(path) as f:
            self.source = f.read()
        self.tree = ast.parse(self.source, filename=path)
        self.defs = {}
        self.imports = {}     # local name -> ('mod', dotted) | ('from', dotted, attr)
        self.globals_nodes = {}
        self.has_try = False
        self._scan(self.tree.body)
        self.classes = {}

    def _scan(self, stmts):
        name = self.name
        for n in stmts:
            if isinstance(n, ast.FunctionDef):
                self.defs[n.name] = n
            elif isinstance(n, ast.ClassDef):
                self.defs[n.name] = n
            elif isinstance(n, ast.Import):
                for a in n.names:
                    self.imports[a.asname or a.name.split(".")[0]] = ("mod", a.name if a.asname else a.name.split(".")[0])
            elif isinstance(n, ast.ImportFrom):
                base = n.module or ""
                if n.level:
                    pkg = name.split(".")
                    pkg = pkg[:len(pkg) - n.level]
                    base = ".".join(pkg + ([n.module] if n.module else []))
                for a in n.names:
                    self.imports[a.asname or a.name] = ("from", base, a.name)
            elif isinstance(n, ast.Assign) and len(n.targets) == 1 and isinstance(n.targets[0], ast.Name):
                self.globals_nodes[n.targets[0].id] = n.value
            elif isinstance(n, ast.Try):
                # module-level try/except (optional imports): one arm is live, chosen by MODULE_VARIANTS
                self.has_try = True
                if self.variant == "try":
                    self._scan(n.body)
                    self._scan(n.orelse)
                else:
                    if n.handlers:
                        self._scan(n.handlers[0].body)
                self._scan(n.finalbody)

    def get_class(self, name):
        if name not in self.classes:
            self.classes[name] = ClassVal(self, self.defs[name])
        return self.classes[name]


_MODULES = {}


def load_module(dotted):
    variant = MODULE_VARIANTS.get(dotted, "try")
    key = (dotted, variant)
    if key in _MODULES:
        return _MODULES[key]
    path = os.path.join(REPO, *dotted.split(".")) + ".py"
    if not os.path.exists(path):
        return None
    m = Module(dotted, path, variant)
    _MODULES[key] = m
    return m


def reset_modules():
    _MODULES.clear()


# ----------------------------------------------------------------------------------------------
# frames


class Frame:
    def __init__(self, module, env, fname):
        self.module, self.env, self.fname = module, env, fname

    def clone(self):
        return Frame(self.module, dict(self.env), self.fname)


BINOPS = {ast.Add: "+", ast.Sub: "-", ast.Mult: "*", ast.Div: "/", ast.FloorDiv: "//", ast.Mod: "%",
          ast.Pow: "**", ast.BitAnd: "&", ast.BitOr: "|", ast.MatMult: "@"}
CMPOPS = {ast.Lt: "<", ast.LtE: "<=", ast.Gt: ">", ast.GtE: ">=", ast.Eq: "==", ast.NotEq: "!="}


class Interp:
    def __init__(self, lib, summaries=None, loop_hints=None, inline_ok=None):
        self.lib = lib                      # library table (see lib.py)
        self.summaries = summaries or {}    # 'module.qualname' -> callable(interp, args, kwargs) (callee contracts)
        self.loop_hints = loop_hints or {}
        self.loop_opts = {}                 # choices between equivalent closed forms in the loop rule (Unit.loop_opts)
        self.depth = 0
        self.max_forks = 4096
        self.used_summaries = set()
        self.inlined = set()
        self.lib_used = set()
        self.decisions_enabled = True

    # ------------------------------------------------------------------ decisions
    def decide(self, cond):
        cond = norm(cond)
        if isinstance(cond, A.Arr):
            if cond.shape == ():
                cond = cond.get(())
            else:
                raise PyRaise("ValueError", "truth value of an array is ambiguous")
        if cond is None:
            return False
        if isinstance(cond, Ref):
            if cond.kind == "list":
                c = cond.content
                if isinstance(c, A.SeqVal):
                    return self.decide(sv.cmp(">", c.length, 0))
                return len(c) > 0
            if cond.kind == "dict":
                return len(cond.content) > 0
            if cond.kind == "obj" and cond.cls is not None:
                # truthiness of an instance of a repository class: __bool__, else __len__ != 0, else True
                for dunder in ("__bool__", "__len__"):
                    if dunder in cond.cls.methods:
                        v = self.call_function(FuncVal(cond.cls.module, cond.cls.methods[dunder], bound=cond, cls=cond.cls), [], {})
                        return self.decide(v if dunder == "__bool__" else sv.cmp("!=", v, 0))
            return True
        if isinstance(cond, str):
            return len(cond) > 0
        from .text import LineVal, Text, TokList, line_truth
        if isinstance(cond, LineVal):
            return self.decide(line_truth(self, cond))
        if isinstance(cond, TokList):
            return self.decide(sv.cmp(">", cond.n, 0))
        if isinstance(cond, Text):
            return True
        if isinstance(cond, (tuple, list)):
            return len(cond) > 0
        if isinstance(cond, Cx):
            cond = sv.or_(sv.cmp("!=", cond.re, 0), sv.cmp("!=", cond.im, 0))
        if not isinstance(cond, SV):
            if isinstance(cond, (int, bool, Fraction)):
                return bool(cond)
            return True
        t = z3.simplify(sv.zb(cond))
        if z3.is_true(t):
            return True
        if z3.is_false(t):
            return False
        st = cur()
        dec = st.decisions
        k = t.get_id()
        if k in dec:
            return dec[k][0]
        # does the path condition decide it?
        if st.pc or st.facts or st.array_facts:
            s = z3.Solver()
            s.set("timeout", 2000)
            for f in st.all_assumptions():
                s.add(f)
            if st.array_facts:
                # quantified preconditions about input arrays: instantiate them for the applications in the condition
                from .axioms import collect_apps
                apps = collect_apps([t])
                for fname, fact in st.array_facts:
                    for e in apps.get(fname, {}).values():
                        try:
                            s.add(fact(*e.children()))
                        except Exception:  # pragma: no cover
                            pass
            s.push()
            s.add(z3.Not(t))
            r1 = s.check()
            s.pop()
            if r1 == z3.unsat:
                dec[k] = (True, t)
                return True
            s.push()
            s.add(t)
            r2 = s.check()
            s.pop()
            if r2 == z3.unsat:
                dec[k] = (False, t)
                return False
        raise Fork(t)

    # ------------------------------------------------------------------ calling repo functions
    def call_function(self, fv: FuncVal, args, kwargs):
        key = f"{fv.module.name}.{fv.qualname}"
        if key in self.summaries and self.depth > 0:
            self.used_summaries.add(key)
            # the callee contract receives the call normalised against the callee's REAL signature: every parameter in
            # positional order with its default filled in (and again by name), so that a call site that omits / renames /
            # reorders an argument is seen by the contract exactly as CPython would bind it (TypeError paths included)
            env = self.bind_args(fv, args, kwargs)
            a = fv.node.args
            params = [x.arg for x in a.posonlyargs + a.args]
            if a.vararg is None and a.kwarg is None:
                full = [env[p] for p in params]
                kw = dict(kwargs)           # what the call site passed by keyword stays visible by name as well
                for x in a.kwonlyargs:
                    kw.setdefault(x.arg, env[x.arg])
            else:
                full = list(args)
                if fv.bound is not None:
                    full = [fv.bound] + full
                kw = kwargs
            return self.summaries[key](self, full, kw)
        if self.depth > 0:
            self.inlined.add(key)
        node = fv.node
        env = self.bind_args(fv, args, kwargs)
        frame = Frame(fv.module, env, key)
        self.depth += 1
        saved_where = cur().where
        try:
            try:
                self.exec_body_single(node.body, frame)
            except _Return as r:
                return r.value
            return None
        finally:
            self.depth -= 1
            cur().where = saved_where

    def bind_args(self, fv, args, kwargs):
        node = fv.node
        a = node.args
        params = [x.arg for x in a.posonlyargs + a.args]
        env = {}
        args = list(args)
        if fv.bound is not None:
            args = [fv.bound] + args
        if len(args) > len(params) and a.vararg is None:
            raise PyRaise("TypeError", f"{fv.qualname}() takes {len(params)} positional arguments but {len(args)} were given")
        for p, v in zip(params, args):
            env[p] = v
            A.mark_named(v)
        for v in kwargs.values():
            A.mark_named(v)
        if a.vararg is not None:
            env[a.vararg.arg] = tuple(args[len(params):])
        kw = dict(kwargs)
        for p in params[len(args):]:
            if p in kw:
                env[p] = kw.pop(p)
        for x in a.kwonlyargs:
            if x.arg in kw:
                env[x.arg] = kw.pop(x.arg)
        if kw:
            if a.kwarg is not None:
                env[a.kwarg.arg] = new_dict(kw)
            else:
                raise PyRaise("TypeError", f"{fv.qualname}() got an unexpected keyword argument {sorted(kw)[0]!r}")
        # defaults (evaluated in module context; fresh evaluation each call is equivalent for immutable use,
        # the C18 frame pass treats default objects as shared storage separately)
        defaults = a.defaults
        npos = len(params)
        for i, d in enumerate(defaults):
            p = params[npos - len(defaults) + i]
            if p not in env:
                env[p] = self.eval_default(fv, p, d)
        for x, d in zip(a.kwonlyargs, a.kw_defaults):
            if x.arg not in env and d is not None:
                env[x.arg] = self.eval_default(fv, x.arg, d)
        for p in params:
            if p not in env:
                raise PyRaise("TypeError", f"{fv.qualname}() missing required argument {p!r}")
        return env

    def eval_default(self, fv, pname, node):
        st = cur()
        cache = st.default_cache
        key = (fv.module.name, fv.qualname, pname)
        if key not in cache:
            v = self.eval(node, Frame(fv.module, {}, f"{fv.module.name}.<defaults>"))
            cache[key] = v
            if isinstance(v, A.Arr):
                st.origin[v.sid] = f"default argument {pname} of {fv.qualname}"
                cache[("cell",) + key] = st.heap[v.sid]
        v = cache[key]
        if isinstance(v, A.Arr) and v.sid not in st.heap and ("cell",) + key in cache:
            # the default object was created on another path (a fork made before it existed here): the same object,
            # with the content it had at creation
            st.heap[v.sid] = cache[("cell",) + key]
        return v

    # ------------------------------------------------------------------ statements
    def exec_body_single(self, stmts, frame):
        """single-path execution (Fork propagates to the caller)"""
        for s in stmts:
            self.exec_stmt(s, frame)

    def exec_block_paths(self, stmts, frame, state):
        """multi-path execution of a statement list from (frame, state).
        returns list of (frame, state, outcome) with outcome in ('normal',) ('return', v) ('raise', exc, msg) ('break',) ('continue',)"""
        paths = [(frame, state)]
        results = []
        for s in stmts:
            nxt = []
            for fr, st in paths:
                for fr2, st2, out in self.exec_stmt_forking(s, fr, st, 0):
                    if out[0] == "normal":
                        nxt.append((fr2, st2))
                    else:
                        results.append((fr2, st2, out))
            paths = nxt
            if len(paths) + len(results) > self.max_forks:
                raise EngineError("path explosion")
        for fr, st in paths:
            results.append((fr, st, ("normal",)))
        return results

    def exec_stmt_forking(self, s, frame, state, nfork):
        if isinstance(s, ast.If):
            return self._exec_if_paths(s, frame, state)
        if isinstance(s, (ast.For, ast.While)):
            return self.exec_loop_paths(s, frame, state)
        if isinstance(s, ast.With):
            return self._exec_with_paths(s, frame, state)
        if isinstance(s, ast.Try):
            return self._exec_try_paths(s, frame, state)
        fr0, st0 = frame.clone(), state.fork()
        try:
            with use_state(state):
                self.exec_stmt(s, frame)
            return [(frame, state, ("normal",))]
        except Fork as f:
            return self._split(f, fr0, st0, lambda fr, st: self.exec_stmt_forking(s, fr, st, nfork + 1), nfork)
        except _Return as r:
            return [(frame, state, ("return", r.value))]
        except _Break:
            return [(frame, state, ("break",))]
        except _Continue:
            return [(frame, state, ("continue",))]
        except PyRaise as e:
            return [(frame, state, ("raise", e.exc_type, e.msg))]
        except A.ReadOnlyStore as e:
            return [(frame, state, ("raise", "ValueError", str(e)))]
        except A.NumpyCastingError as e:
            return [(frame, state, ("raise", "UFuncTypeError", str(e)))]
        except ZeroDivisionError as e:
            return [(frame, state, ("raise", "ZeroDivisionError", str(e)))]

    def _split(self, f, fr0, st0, cont, nfork):
        if nfork > 64:
            raise EngineError("fork depth")
        outs = []
        for val in (True, False):
            fr, st = fr0.clone(), st0.fork()
            st.decisions[f.cond.get_id()] = (val, f.cond)
            st.pc.append(f.cond if val else z3.Not(f.cond))
            if not self.feasible(st):
                continue
            outs.extend(cont(fr, st))
        return outs

    def feasible(self, st):
        s = z3.Solver()
        s.set("timeout", 3000)
        for f in st.all_assumptions():
            s.add(f)
        return s.check() != z3.unsat

    def _effect_free(self, stmts, frame):
        """statements the extraction drops entirely (calls on the module-level logger, pass, docstrings): an `if` whose arms
        consist only of these has no effect besides evaluating its test, so no path split is needed"""
        for n in stmts:
            if isinstance(n, ast.Pass):
                continue
            if isinstance(n, ast.Expr) and isinstance(n.value, ast.Constant):
                continue
            if isinstance(n, ast.Expr) and isinstance(n.value, ast.Call):
                f = n.value.func
                if isinstance(f, ast.Attribute) and isinstance(f.value, ast.Name) and f.value.id == "logger" and "logger" not in frame.env:
                    continue
            return False
        return True

    def _exec_if_paths(self, s, frame, state, nfork=0):
        fr0, st0 = frame.clone(), state.fork()
        try:
            with use_state(state):
                state.where = f"{frame.fname}:{s.lineno}"
                tv = self.eval(s.test, frame)
                if self._effect_free(s.body, frame) and self._effect_free(s.orelse, frame) and isinstance(norm(tv), (SV, bool, int)):
                    return [(frame, state, ("normal",))]
                c = self.decide(tv)
        except Fork as f:
            return self._split(f, fr0, st0, lambda fr, st: self._exec_if_paths(s, fr, st, nfork + 1), nfork)
        except PyRaise as e:
            return [(frame, state, ("raise", e.exc_type, e.msg))]
        return self.exec_block_paths(s.body if c else s.orelse, frame, state)

    def _exec_with_paths(self, s, frame, state):
        # with open(...) as f: body   -> evaluate context expr, bind, run body
        fr0, st0 = frame.clone(), state.fork()
        try:
            with use_state(state):
                for item in s.items:
                    v = self.eval(item.context_expr, frame)
                    if item.optional_vars is not None:
                        self.assign(item.optional_vars, v, frame)
        except Fork as f:
            return self._split(f, fr0, st0, lambda fr, st: self._exec_with_paths(s, fr, st), 0)
        except PyRaise as e:
            return [(frame, state, ("raise", e.exc_type, e.msg))]
        return self.exec_block_paths(s.body, frame, state)

    def _exec_try_paths(self, s, frame, state):
        outs = []
        for fr, st, out in self.exec_block_paths(s.body, frame, state):
            if out[0] == "raise":
                handled = False
                for h in s.handlers:
                    names = []
                    if h.type is None:
                        names = None
                    elif isinstance(h.type, ast.Tuple):
                        names = [ast.unparse(e) for e in h.type.elts]
                    else:
                        names = [ast.unparse(h.type)]
                    if names is None or out[1] in names or "Exception" in names or "BaseException" in names:
                        outs.extend(self.exec_block_paths(h.body, fr, st))
                        handled = True
                        break
                if not handled:
                    outs.append((fr, st, out))
            else:
                if out[0] == "normal" and s.orelse:
                    outs.extend(self.exec_block_paths(s.orelse, fr, st))
                else:
                    outs.append((fr, st, out))
        if s.finalbody:
            res = []
            for fr, st, out in outs:
                for fr2, st2, out2 in self.exec_block_paths(s.finalbody, fr, st):
                    res.append((fr2, st2, out if out2[0] == "normal" else out2))
            return res
        return outs

    # loops: implemented in loops.py (mixed in)
    def exec_loop_paths(self, s, frame, state):
        from .loops import exec_loop_paths
        return exec_loop_paths(self, s, frame, state)

    def exec_stmt(self, s, frame):
        """single-path statement execution in the current state"""
        st = cur()
        st.where = f"{frame.fname}:{getattr(s, 'lineno', 0)}"
        from .state import LAST_SID
        st.stmt_mark = LAST_SID[0]
        if isinstance(s, ast.Expr):
            if isinstance(s.value, ast.Constant):
                return  # docstring
            self.eval(s.value, frame)
            return
        if isinstance(s, ast.Assign):
            v = self.eval(s.value, frame)
            for t in s.targets:
                self.assign(t, v, frame)
            return
        if isinstance(s, ast.AnnAssign):
            if s.value is not None:
                self.assign(s.target, self.eval(s.value, frame), frame)
            return
        if isinstance(s, ast.AugAssign):
            self.aug_assign(s, frame)
            return
        if isinstance(s, ast.Return):
            raise _Return(self.eval(s.value, frame) if s.value is not None else None)
        if isinstance(s, ast.Pass):
            return
        if isinstance(s, ast.Break):
            raise _Break()
        if isinstance(s, ast.Continue):
            raise _Continue()
        if isinstance(s, ast.Delete):
            for t in s.targets:
                if isinstance(t, ast.Name):
                    frame.env.pop(t.id, None)
            return
        if isinstance(s, (ast.Import, ast.ImportFrom)):
            self.exec_import(s, frame)
            return
        if isinstance(s, ast.Raise):
            if s.exc is None:
                raise PyRaise("Exception", "re-raise")
            name, msg = self.exc_name(s.exc, frame)
            raise PyRaise(name, msg)
        if isinstance(s, ast.Assert):
            c = self.decide(self.eval(s.test, frame))
            if not c:
                raise PyRaise("AssertionError", ast.unparse(s.test)[:80])
            return
        if isinstance(s, ast.If):
            tv = self.eval(s.test, frame)
            if self._effect_free(s.body, frame) and self._effect_free(s.orelse, frame) and isinstance(norm(tv), (SV, bool, int)):
                return
            c = self.decide(tv)
            self.exec_body_single(s.body if c else s.orelse, frame)
            return
        if isinstance(s, (ast.For, ast.While)):
            from .loops import exec_loop_single
            exec_loop_single(self, s, frame)
            return
        if isinstance(s, ast.With):
            for item in s.items:
                v = self.eval(item.context_expr, frame)
                if item.optional_vars is not None:
                    self.assign(item.optional_vars, v, frame)
            self.exec_body_single(s.body, frame)
            return
        if isinstance(s, ast.Global):
            return
        if isinstance(s, ast.FunctionDef):
            frame.env[s.name] = FuncVal(frame.module, s)
            return
        raise EngineError(f"unsupported statement {type(s).__name__} at {st.where}")

    def exec_import(self, s, frame):
        if isinstance(s, ast.Import):
            for a in s.names:
                frame.env[a.asname or a.name.split(".")[0]] = ModVal(a.name if a.asname else a.name.split(".")[0])
        else:
            for a in s.names:
                frame.env[a.asname or a.name] = self.resolve_from(frame.module, s.module or "", a.name, s.level)

    def exc_name(self, node, frame):
        if isinstance(node, ast.Call):
            name = ast.unparse(node.func)
            msg = ""
            if node.args and isinstance(node.args[0], ast.Constant):
                msg = str(node.args[0].value)
            elif node.args:
                try:
                    v = self.eval(node.args[0], frame)
                    if isinstance(v, str):
                        msg = v
                except Exception:  # the message is informational only
                    pass
            return name, msg
        return ast.unparse(node), ""

    # ------------------------------------------------------------------ assignment
    def assign(self, target, value, frame):
        A.mark_named(value)
        if isinstance(target, ast.Name):
            frame.env[target.id] = value
            return
        if isinstance(target, (ast.Tuple, ast.List)):
            items = self.iter_concrete(value)
            if any(isinstance(e, ast.Starred) for e in target.elts):
                raise EngineError("starred assignment")
            if len(items) != len(target.elts):
                raise PyRaise("ValueError", f"cannot unpack {len(items)} values into {len(target.elts)}")
            for t, v in zip(target.elts, items):
                self.assign(t, v, frame)
            return
        if isinstance(target, ast.Attribute):
            obj = self.eval(target.value, frame)
            self.setattr(obj, target.attr, value)
            return
        if isinstance(target, ast.Subscript):
            obj = self.eval(target.value, frame)
            key = self.eval_index(target.slice, frame)
            self.setitem(obj, key, value)
            return
        raise EngineError(f"assignment target {type(target).__name__}")

    def aug_assign(self, s, frame):
        op = BINOPS[type(s.op)]
        rhs = self.eval(s.value, frame)
        t = s.target
        if isinstance(t, ast.Name):
            cur_v = self.lookup(t.id, frame)
            if isinstance(cur_v, A.Arr):
                if op == "@":
                    raise EngineError("@=")
                A.inplace(cur_v, op, rhs)
                return
            if isinstance(cur_v, Ref) and cur_v.kind == "list" and op == "+":
                cur_v.set_content(tuple(cur_v.content) + tuple(self.iter_concrete(rhs)))
                return
            from .lib import SeriesVal
            if isinstance(cur_v, SeriesVal):
                frame.env[t.id] = self.binop(op, cur_v, rhs)
                return
            frame.env[t.id] = self.binop(op, cur_v, rhs)
            return
        if isinstance(t, ast.Subscript):
            obj = self.eval(t.value, frame)
            key = self.eval_index(t.slice, frame)
            if isinstance(obj, A.Arr):
                A.setitem(obj, key, rhs, aug=op)
                return
            if isinstance(obj, Ref) and obj.kind == "df":
                from .pandas_model import df_aug_assign
                return df_aug_assign(self, obj, key, op, rhs)
            cur_v = self.getitem(obj, key)
            if isinstance(cur_v, A.Arr):
                A.inplace(cur_v, op, rhs)
                return
            self.setitem(obj, key, self.binop(op, cur_v, rhs))
            return
        if isinstance(t, ast.Attribute):
            obj = self.eval(t.value, frame)
            cur_v = self.getattr(obj, t.attr)
            if isinstance(cur_v, A.Arr):
                A.inplace(cur_v, op, rhs)
                return
            self.setattr(obj, t.attr, self.binop(op, cur_v, rhs))
            return
        raise EngineError("augmented assignment target")

    # ------------------------------------------------------------------ attribute / item protocol
    def setattr(self, obj, name, value):
        if isinstance(obj, Ref) and obj.kind == "obj":
            c = cur().heap[obj.sid]
            if c.meta.get("frozen") and not c.meta.get("constructing"):
                raise PyRaise("FrozenInstanceError", f"cannot assign to field {name!r}")
            d = dict(c.data)
            d[name] = value
            cur().heap[obj.sid] = Content("obj", d, c.meta)
            cur().events.append(("setattr", obj.sid, name, cur().where, list(cur().pc)))
            return
        from .lib import lib_setattr
        return lib_setattr(self, obj, name, value)

    def getattr(self, obj, name):
        if isinstance(obj, Ref) and obj.kind == "obj":
            d = obj.content
            if name in d:
                return d[name]
            cls = obj.cls
            if cls is not None:
                if name in cls.methods:
                    return FuncVal(cls.module, cls.methods[name], bound=obj, cls=cls)
                if name in cls.class_attrs:
                    return self.eval(cls.class_attrs[name], Frame(cls.module, {}, cls.name))
                # a symbolic INPUT object built by a contract may leave out attributes its unit's paths do not read; when the class
                # declares the attribute (dataclass field, or `self.<name> = ...` in one of its methods) a real instance has it: the
                # path stops at an engine limit (UNDECIDED, decided by the replay), it is not an AttributeError of the code
                if cur().heap[obj.sid].meta.get("built_by_contract") and name in declared_attributes(cls):
                    raise PyRaise("unresolved-callee", f"symbolic input object of class {cls.name} was built by the contract without its declared attribute {name!r}")
            raise PyRaise("AttributeError", f"{obj!r} has no attribute {name!r}")
        if isinstance(obj, ModVal):
            return self.lib.module_attr(self, obj, name)
        if isinstance(obj, ClassVal):
            if obj.is_enum and name in obj.class_attrs:
                return EnumMember(obj, name, self.eval(obj.class_attrs[name], Frame(obj.module, {}, obj.name)))
            if name in obj.methods:
                return FuncVal(obj.module, obj.methods[name], cls=obj)
            if name in obj.class_attrs:
                return self.eval(obj.class_attrs[name], Frame(obj.module, {}, obj.name))
            raise PyRaise("AttributeError", f"class {obj.name} has no attribute {name}")
        if isinstance(obj, EnumMember):
            if name == "name":
                return obj.name
            if name == "value":
                return obj.value
        return self.lib.value_attr(self, obj, name)

    def getitem(self, obj, key):
        if isinstance(obj, (A.Arr, A.Masked)):
            return A.getitem(obj, key)
        if isinstance(obj, Ref):
            if obj.kind == "list":
                c = obj.content
                if isinstance(c, A.SeqVal):
                    if isinstance(key, slice):
                        # python clamps slice bounds; here the slice is required to lie inside the list (side obligation)
                        st_, ln_ = A._slice_bounds(key, c.length)
                        fn_ = c.fn
                        return Ref(cur().alloc(Content("list", A.SeqVal(ln_, lambda i, st_=st_, fn_=fn_: fn_(A.simp(sv.add(st_, i)))))), "list")
                    i = A._norm_index(key, c.length)
                    return c.fn(i)
                return self._seq_getitem(c, key, aslist=True)
            if obj.kind == "dict":
                d = obj.content
                k = self.dict_key(key)
                if k in d:
                    return d[k]
                if isinstance(key, SV):
                    # symbolic key: ite chain over concrete keys, requiring membership
                    keys = list(d.keys())
                    cur().require(sv.or_(*[sv.cmp("==", key, kk) for kk in keys]), "dict-key")
                    r = d[keys[-1]]
                    for kk in reversed(keys[:-1]):
                        r = self.merge_ite(sv.cmp("==", key, kk), d[kk], r)
                    return r
                raise PyRaise("KeyError", repr(key))
        if isinstance(obj, (tuple, list)):
            return self._seq_getitem(obj, key, aslist=isinstance(obj, list))
        if isinstance(obj, str):
            if isinstance(key, slice) or is_conc(key):
                try:
                    return obj[key if isinstance(key, slice) else int(key)]
                except IndexError:
                    raise PyRaise("IndexError", "string index out of range")
        return self.lib.value_getitem(self, obj, key)

    def merge_ite(self, c, a, b):
        if sv.is_scalar(a) and sv.is_scalar(b):
            return sv.ite(c, a, b)
        if isinstance(a, A.Arr) and isinstance(b, A.Arr):
            return A.ew(lambda x, y: sv.ite(c, x, y), a, b)
        raise EngineError("cannot merge values of symbolic dictionary lookup")

    def _seq_getitem(self, seq, key, aslist=False):
        if isinstance(key, slice):
            k = slice(*[None if x is None else self.conc_int(x) for x in (key.start, key.stop, key.step)])
            r = tuple(seq)[k]
            return new_list(r) if aslist else r
        key = norm(key)
        if is_conc(key):
            try:
                return seq[int(key)]
            except IndexError:
                raise PyRaise("IndexError", "list index out of range")
        if isinstance(key, SV):
            n = len(seq)
            cur().require(sv.and_(sv.cmp(">=", key, 0), sv.cmp("<", key, n)), "index-bounds")
            items = list(seq)
            if all(sv.is_scalar(x) for x in items):
                return A._pick([norm(x) for x in items], key)
            r = items[-1]
            for k in range(n - 2, -1, -1):
                r = self.merge_ite(sv.cmp("==", key, k), items[k], r)
            return r
        raise EngineError(f"sequence index {key!r}")

    def dict_key(self, key):
        key = norm(key)
        if isinstance(key, Fraction) and key.denominator == 1:
            return int(key)
        return key

    def setitem(self, obj, key, value):
        if isinstance(obj, A.Arr):
            from .text import Tok, TokList, tok_to_scalar, toklist_to_array
            if isinstance(value, TokList):
                value = toklist_to_array(value, obj.dtype if obj.dtype in ("int", "float") else "float")
            elif isinstance(value, (Tok, str)):
                value = tok_to_scalar(value, obj.dtype)
            else:
                value = self.arr_operand(value)
            return A.setitem(obj, key, value)
        if isinstance(obj, Ref):
            if obj.kind == "list":
                c = list(obj.content)
                c[self.conc_int(key)] = value
                obj.set_content(tuple(c))
                return
            if obj.kind == "dict":
                d = dict(obj.content)
                d[self.dict_key(key)] = value
                obj.set_content(d)
                return
        return self.lib.value_setitem(self, obj, key, value)

    def conc_int(self, v):
        v = norm(v)
        if isinstance(v, A.Arr) and v.shape == ():
            v = v.get(())
        if is_conc(v):
            if isinstance(v, Fraction):
                if v.denominator != 1:
                    raise PyRaise("TypeError", "float used as integer")
                raise PyRaise("TypeError", "'float' object cannot be interpreted as an integer")
            return int(v)
        raise EngineError(f"concrete integer required, got {v!r}")

    def iter_concrete(self, v):
        """python iteration over a concretely sized value -> list of items"""
        if isinstance(v, (tuple, list)):
            return list(v)
        if isinstance(v, Ref):
            if v.kind == "list":
                c = v.content
                if isinstance(c, A.SeqVal):
                    raise EngineError("iteration over symbolic-length list")
                return list(c)
            if v.kind == "dict":
                dict_order_observed(v, "iteration over a dict")
                return list(v.content.keys())
        if isinstance(v, A.Arr):
            n = v.shape[0] if v.shape else None
            if n is None:
                raise PyRaise("TypeError", "iteration over a 0-d array")
            if not A.dim_conc(n):
                raise EngineError("iteration over symbolic-length array")
            return [A.getitem(v, i) for i in range(n)]
        if isinstance(v, range):
            return list(v)
        if isinstance(v, str):
            return list(v)
        if isinstance(v, (set, frozenset)):
            return sorted(v, key=repr)
        from .lib import lib_iter
        return lib_iter(self, v)

    # ------------------------------------------------------------------ expressions
    def lookup(self, name, frame):
        if name in frame.env:
            v = frame.env[name]
            if type(v).__name__ == "UnboundAfterLoop":
                raise EngineError(f"variable {name!r} is read after the loop at {v.where} whose zero-trip case was not split off")
            if type(v).__name__ == "Undetermined":
                raise EngineError(f"variable {name!r} is read after a loop that may not have run ({v.where}) and has no mergeable value")
            return v
        m = frame.module
        if name in m.defs:
            n = m.defs[name]
            if isinstance(n, ast.ClassDef):
                return m.get_class(name)
            return FuncVal(m, n)
        if name in m.imports:
            imp = m.imports[name]
            if imp[0] == "mod":
                return ModVal(imp[1])
            return self.resolve_from(m, imp[1], imp[2], 0)
        if name in m.globals_nodes:
            if name == "logger":
                return DROPPED
            return self.eval(m.globals_nodes[name], Frame(m, {}, m.name))
        b = self.lib.builtin(name)
        if b is not None:
            return b
        raise PyRaise("NameError", f"name {name!r} is not defined")

    def resolve_from(self, module, base, attr, level):
        if level:
            pkg = module.name.split(".")
            pkg = pkg[:len(pkg) - level]
            base = ".".join(pkg + ([base] if base else []))
        rm = load_module(base) if base.startswith("PyMatterSim") else None
        if rm is not None:
            if attr in rm.defs:
                n = rm.defs[attr]
                return rm.get_class(attr) if isinstance(n, ast.ClassDef) else FuncVal(rm, n)
            if attr in rm.globals_nodes:
                return self.eval(rm.globals_nodes[attr], Frame(rm, {}, rm.name))
            if attr in rm.imports:
                imp = rm.imports[attr]
                return ModVal(imp[1]) if imp[0] == "mod" else self.resolve_from(rm, imp[1], imp[2], 0)
            raise PyRaise("ImportError", f"cannot import name {attr!r} from {base}")
        return self.lib.from_import(self, base, attr)

    def eval(self, node, frame):
        m = getattr(self, "ev_" + type(node).__name__, None)
        if m is None:
            raise EngineError(f"unsupported expression {type(node).__name__} at {cur().where}")
        return m(node, frame)

    def ev_Constant(self, node, frame):
        v = node.value
        if isinstance(v, float):
            return sv.to_frac(v)
        if isinstance(v, complex):
            return Cx(sv.to_frac(v.real), sv.to_frac(v.imag))
        return v

    def ev_Name(self, node, frame):
        return self.lookup(node.id, frame)

    def ev_Tuple(self, node, frame):
        out = []
        for e in node.elts:
            if isinstance(e, ast.Starred):
                out.extend(self.iter_concrete(self.eval(e.value, frame)))
            else:
                out.append(self.eval(e, frame))
        return tuple(out)

    def ev_List(self, node, frame):
        items = self.ev_Tuple(node, frame)
        A.mark_named(items)
        return new_list(items)

    def ev_Set(self, node, frame):
        return frozenset(self.hashable(self.eval(e, frame)) for e in node.elts)

    def ev_Dict(self, node, frame):
        d = {}
        for k, v in zip(node.keys, node.values):
            if k is None:
                sub = self.eval(v, frame)
                d.update(sub.content)
            else:
                d[self.dict_key(self.eval(k, frame))] = self.eval(v, frame)
        return new_dict(d)

    def hashable(self, v):
        v = norm(v)
        if isinstance(v, SV):
            raise EngineError("symbolic value in a set")
        if isinstance(v, Ref) and v.kind == "list":
            return tuple(self.hashable(x) for x in v.content)
        if isinstance(v, A.Arr):
            return tuple(self.hashable(x) for x in self.iter_concrete(v))
        return v

    def ev_BinOp(self, node, frame):
        a = self.eval(node.left, frame)
        b = self.eval(node.right, frame)
        return self.binop(BINOPS[type(node.op)], a, b)

    def binop(self, op, a, b):
        if a is DROPPED or b is DROPPED:
            return DROPPED
        a, b = norm(a), norm(b)
        la, lb = self.lib.is_lib_value(a), self.lib.is_lib_value(b)
        if la or lb:
            return self.lib.value_binop(self, op, a, b)
        if isinstance(a, (A.Arr, A.Masked)) or isinstance(b, (A.Arr, A.Masked)):
            if op == "@":
                return A.matmul(a, b)
            a2 = self.arr_operand(a)
            b2 = self.arr_operand(b)
            return A.binop(op, a2, b2)
        from .text import Text as _Text
        if isinstance(a, (str, _Text)) or isinstance(b, (str, _Text)):
            return self.lib.str_binop(self, op, a, b)
        if isinstance(a, Ref) or isinstance(b, Ref):
            if op == "+" and isinstance(a, Ref) and isinstance(b, Ref) and a.kind == b.kind == "list":
                return new_list(tuple(a.content) + tuple(b.content))
            if op == "*" and isinstance(a, Ref) and a.kind == "list" and is_conc(b):
                return new_list(tuple(a.content) * int(b))
            if op == "*" and isinstance(b, Ref) and b.kind == "list" and is_conc(a):
                return new_list(tuple(b.content) * int(a))
            raise EngineError(f"operator {op} on {a!r}, {b!r}")
        if isinstance(a, tuple) and isinstance(b, tuple) and op == "+":
            return a + b
        if isinstance(a, tuple) and is_conc(b) and op == "*":
            return a * int(b)
        if not (sv.is_scalar(a) and sv.is_scalar(b)):
            raise EngineError(f"operator {op} on {type(a).__name__}, {type(b).__name__}")
        if op in ("&", "|") and is_conc(a) and is_conc(b) and not isinstance(a, bool):
            return (a & b) if op == "&" else (a | b)
        return A.scalar_binop(op, a, b)

    def arr_operand(self, v):
        if isinstance(v, Ref) and v.kind == "list":
            return A.from_nested(self.to_py(v))
        return v

    def to_py(self, v):
        """Ref lists -> nested python lists"""
        if isinstance(v, Ref) and v.kind == "list":
            c = v.content
            if isinstance(c, A.SeqVal):
                return c
            return [self.to_py(x) for x in c]
        if isinstance(v, tuple):
            return [self.to_py(x) for x in v]
        return v

    def ev_UnaryOp(self, node, frame):
        v = norm(self.eval(node.operand, frame))
        if isinstance(node.op, ast.USub):
            if isinstance(v, (A.Arr, A.Masked)):
                return A.unop(sv.neg, v)
            if self.lib.is_lib_value(v):
                return self.lib.value_binop(self, "*", v, -1)
            return sv.neg(v)
        if isinstance(node.op, ast.UAdd):
            return A.copy(v) if isinstance(v, A.Arr) else v       # +a is a new array (numpy.positive), never the operand itself
        if isinstance(node.op, ast.Not):
            if isinstance(v, SV):
                return sv.not_(v)
            return not self.decide(v)
        if isinstance(node.op, ast.Invert):
            if isinstance(v, A.Arr):
                return A.unop(sv.not_, v, dtype="bool")
            if isinstance(v, SV) and v.is_bool:
                return sv.not_(v)
            if isinstance(v, bool):
                return not v
            if is_conc(v):
                return ~int(v)
        raise EngineError("unary operator")

    def ev_BoolOp(self, node, frame):
        # python semantics: returns an operand; with symbolic bools use and_/or_
        vals = []
        for e in node.values:
            v = self.eval(e, frame)
            if isinstance(v, SV) and v.is_bool:
                vals.append(v)
                continue
            if isinstance(v, SV):
                vals.append(sv.cmp("!=", v, 0))
                continue
            t = self.decide(v)
            if isinstance(node.op, ast.And):
                if not t:
                    return v if not vals else False
            else:
                if t:
                    return v if not vals else True
            last = v
        if not vals:
            return last
        return sv.and_(*vals) if isinstance(node.op, ast.And) else sv.or_(*vals)

    def ev_Compare(self, node, frame):
        left = self.eval(node.left, frame)
        res = []
        for op, rn in zip(node.ops, node.comparators):
            right = self.eval(rn, frame)
            res.append(self.compare(op, left, right))
            left = right
        if len(res) == 1:
            return res[0]
        if all(sv.is_scalar(r) for r in res):
            return sv.and_(*res)
        raise EngineError("chained comparison of arrays")

    def compare(self, op, a, b):
        a, b = norm(a), norm(b)
        if isinstance(op, (ast.In, ast.NotIn)):
            r = self.contains(b, a)
            return sv.not_(r) if isinstance(op, ast.NotIn) else r
        if isinstance(op, (ast.Is, ast.IsNot)):
            same = (a is b) or (a is None and b is None) or (isinstance(a, bool) and isinstance(b, bool) and a == b)
            if isinstance(a, Ref) and isinstance(b, Ref):
                same = a.sid == b.sid
            return same if isinstance(op, ast.Is) else not same
        o = CMPOPS[type(op)]
        if self.lib.is_lib_value(a) or self.lib.is_lib_value(b):
            return self.lib.value_binop(self, o, a, b)
        if isinstance(a, (A.Arr, A.Masked)) or isinstance(b, (A.Arr, A.Masked)):
            if isinstance(a, str) or isinstance(b, str):
                # numpy dtype comparisons like condition.dtype == "bool" are handled in lib; arrays vs str: elementwise on object arrays unsupported
                raise EngineError("array compared with string")
            return A.binop(o, a, b)
        if sv.is_scalar(a) and sv.is_scalar(b):
            return sv.cmp(o, a, b)
        if o in ("==", "!="):
            eq = self.py_eq(a, b)
            return eq if o == "==" else sv.not_(eq)
        if isinstance(a, str) and isinstance(b, str):
            return {"<": a < b, "<=": a <= b, ">": a > b, ">=": a >= b}[o]
        raise EngineError(f"comparison {o} of {type(a).__name__} and {type(b).__name__}")

    def py_eq(self, a, b):
        if a is None or b is None:
            return a is None and b is None
        from .text import LineVal, line_eq
        if isinstance(a, LineVal) or isinstance(b, LineVal):
            if isinstance(a, LineVal) and isinstance(b, str):
                return line_eq(a, b)
            if isinstance(b, LineVal) and isinstance(a, str):
                return line_eq(b, a)
            raise EngineError("comparison of file lines")
        if isinstance(a, str) or isinstance(b, str):
            from .lib import DType
            if isinstance(a, DType) or isinstance(b, DType):
                return self.lib.dtype_eq(a, b)
            return isinstance(a, str) and isinstance(b, str) and a == b
        if isinstance(a, EnumMember) or isinstance(b, EnumMember):
            return isinstance(a, EnumMember) and isinstance(b, EnumMember) and a == b
        if isinstance(a, Ref) and isinstance(b, Ref) and a.kind == b.kind == "list":
            ca, cb = a.content, b.content
            if len(ca) != len(cb):
                return False
            return sv.and_(*[self.py_eq(x, y) if not (sv.is_scalar(x) and sv.is_scalar(y)) else sv.cmp("==", x, y) for x, y in zip(ca, cb)])
        if isinstance(a, tuple) and isinstance(b, tuple):
            if len(a) != len(b):
                return False
            return sv.and_(*[self.py_eq(x, y) if not (sv.is_scalar(x) and sv.is_scalar(y)) else sv.cmp("==", x, y) for x, y in zip(a, b)])
        if sv.is_scalar(a) and sv.is_scalar(b):
            return sv.cmp("==", a, b)
        return self.lib.value_eq(self, a, b)

    def contains(self, container, item):
        if isinstance(container, str):
            if isinstance(item, str):
                return item in container
            raise EngineError("symbolic 'in' string")
        if isinstance(container, Ref) and container.kind == "dict":
            k = self.dict_key(item)
            if isinstance(k, SV):
                return sv.or_(*[sv.cmp("==", k, kk) for kk in container.content.keys() if sv.is_scalar(kk)])
            return k in container.content
        if isinstance(container, (tuple, list, frozenset, set)) or (isinstance(container, Ref) and container.kind == "list"):
            items = self.iter_concrete(container)
            return sv.or_(*[self.py_eq(item, x) for x in items]) if items else False
        return self.lib.value_contains(self, container, item)

    def ev_IfExp(self, node, frame):
        c = self.eval(node.test, frame)
        if isinstance(c, SV):
            a = self.eval(node.body, frame)
            b = self.eval(node.orelse, frame)
            if sv.is_scalar(a) and sv.is_scalar(b):
                return sv.ite(c, a, b)
            raise EngineError("symbolic conditional expression over non-scalars")
        return self.eval(node.body if self.decide(c) else node.orelse, frame)

    def ev_Attribute(self, node, frame):
        obj = self.eval(node.value, frame)
        if obj is DROPPED:
            return DROPPED
        return self.getattr(obj, node.attr)

    def ev_Subscript(self, node, frame):
        obj = self.eval(node.value, frame)
        key = self.eval_index(node.slice, frame)
        return self.getitem(obj, key)

    def eval_index(self, node, frame):
        if isinstance(node, ast.Slice):
            return slice(*[None if x is None else self.index_val(self.eval(x, frame)) for x in (node.lower, node.upper, node.step)])
        if isinstance(node, ast.Tuple):
            return tuple(self.eval_index(e, frame) for e in node.elts)
        v = self.eval(node, frame)
        return self.index_val(v)

    def index_val(self, v):
        v = norm(v)
        if isinstance(v, A.Arr) and v.shape == () :
            return v.get(())
        if isinstance(v, Ref) and v.kind == "list":
            c = v.content
            if not isinstance(c, A.SeqVal) and any(isinstance(x, str) for x in c):
                return v          # list of labels (DataFrame column selection), not an index array
            return A.from_nested(self.to_py(v))
        return v

    def ev_Lambda(self, node, frame):
        return LambdaVal(node, dict(frame.env), frame.module)

    def ev_JoinedStr(self, node, frame):
        return self.lib.fstring(self, node, frame)

    def ev_Starred(self, node, frame):
        raise EngineError("starred expression")

    def ev_ListComp(self, node, frame):
        return self.comprehension(node, frame, "list")

    def ev_GeneratorExp(self, node, frame):
        return self.comprehension(node, frame, "list")

    def ev_SetComp(self, node, frame):
        r = self.comprehension(node, frame, "list")
        c = r.content
        if isinstance(c, A.SeqVal):
            from .lib import SymSet
            return SymSet(c)
        return frozenset(self.hashable(x) for x in c)

    def ev_DictComp(self, node, frame):
        if len(node.generators) != 1:
            raise EngineError("nested dict comprehension")
        g = node.generators[0]
        items = self.iter_concrete(self.eval(g.iter, frame))
        d = {}
        sub = Frame(frame.module, dict(frame.env), frame.fname)
        for it in items:
            self.assign(g.target, it, sub)
            if all(self.decide(self.eval(c, sub)) for c in g.ifs):
                d[self.dict_key(self.eval(node.key, sub))] = self.eval(node.value, sub)
        return new_dict(d)

    def comprehension(self, node, frame, kind):
        gens = node.generators
        sub = Frame(frame.module, dict(frame.env), frame.fname)
        out = []

        def rec(k):
            if k == len(gens):
                out.append(self.eval(node.elt, sub))
                return
            g = gens[k]
            itv = self.eval(g.iter, sub)
            sym = self.symbolic_iter(itv)
            if sym is not None:
                raise _SymComp(sym, g)
            for it in self.iter_concrete(itv):
                self.assign(g.target, it, sub)
                if len(gens) == 1 and g.ifs:
                    # a filter that the path condition does not decide keeps the element conditionally: the result is the
                    # order-preserving compaction (A.compact) instead of 2^n paths
                    keep = True
                    for c in g.ifs:
                        cv = self.eval(c, sub)
                        try:
                            if not self.decide(cv):
                                keep = False
                                break
                        except Fork as f:
                            keep = sv.and_(keep, SV(f.cond)) if keep is not True else SV(f.cond)
                    if keep is False:
                        continue
                    v = self.eval(node.elt, sub)
                    if keep is not True:
                        symbolic_keep.append(True)
                    out.append(v)
                    keeps.append(keep)
                    continue
                if all(self.decide(self.eval(c, sub)) for c in g.ifs):
                    rec(k + 1)
        keeps, symbolic_keep = [], []
        try:
            rec(0)
            if symbolic_keep:
                if not all(sv.is_scalar(norm(x)) for x in out):
                    raise EngineError("filtered comprehension with symbolic filter over non-scalar elements")
                return Ref(cur().alloc(Content("list", A.compact([norm(x) for x in out], keeps))), "list")
        except _SymComp as sc:
            if len(gens) != 1:
                raise EngineError("symbolic comprehension with nesting")
            n, item_at = sc.sym
            g = gens[0]
            env0 = dict(frame.env)
            if g.ifs:
                # [elt for x in seq if cond(x)]: the items at the positions where cond holds, in increasing order of position
                # (relational contract of relops.select: SEL enumerates the selected positions increasingly)
                from .relops import select

                def mask(i, env0=env0, g=g):
                    f2 = Frame(frame.module, dict(env0), frame.fname)
                    self.assign(g.target, item_at(i), f2)
                    conds = []
                    for c in g.ifs:
                        v = norm(self.eval(c, f2))
                        if isinstance(v, SV) and v.is_bool:
                            conds.append(v)
                        elif isinstance(v, bool):
                            conds.append(v)
                        else:
                            raise EngineError("filter of a symbolic comprehension is not a boolean")
                    return sv.and_(*conds) if len(conds) != 1 else conds[0]
                _, sel_app, _, cnt = select(mask, n)

                def fnf(t, env0=env0, g=g):
                    f2 = Frame(frame.module, dict(env0), frame.fname)
                    self.assign(g.target, item_at(sel_app(t)), f2)
                    return self.eval(node.elt, f2)
                return Ref(cur().alloc(Content("list", A.SeqVal(A.simp(cnt), fnf))), "list")

            def fn(i, env0=env0, g=g):
                f2 = Frame(frame.module, dict(env0), frame.fname)
                self.assign(g.target, item_at(i), f2)
                return self.eval(node.elt, f2)
            return Ref(cur().alloc(Content("list", A.SeqVal(n, fn))), "list")
        return new_list(out)

    def symbolic_iter(self, v):
        """(length, item_at) if v iterates over a symbolic number of items, else None"""
        from .lib import RangeVal, _Enumerate
        if isinstance(v, RangeVal) and not v.concrete():
            return v.length(), v.item
        if isinstance(v, _Enumerate):
            sub = self.symbolic_iter(v.it)
            if sub is None:
                return None
            n, item = sub
            start = v.start
            guard = getattr(item, "guard", None)
            if guard is not None:
                if not (sv.is_conc(start) and start == 0):
                    raise EngineError("enumerate(selection, start)")
                it2 = lambda i: (A.MaskRank(i, n, guard), item(i))
                it2.guard = guard
                it2.masked = item.masked
                return n, it2
            return n, (lambda i: (A.simp(sv.add(start, i)), item(i)))
        if isinstance(v, Ref) and v.kind == "list" and isinstance(v.content, A.SeqVal):
            c = v.content
            return c.length, c.fn
        if isinstance(v, A.Arr) and v.shape and not A.dim_conc(v.shape[0]):
            if v.ndim == 1:
                # the positions an iteration visits are inside the array by construction: no index-bounds obligation
                rd = v.reader()
                return v.shape[0], (lambda i: rd((i,)))
            return v.shape[0], (lambda i: A.getitem(v, i))
        from .text import TokList
        if isinstance(v, TokList) and not v.concrete():
            return v.n, v.fn
        if isinstance(v, A.Masked) and v.rest == ():
            # iteration over a boolean-mask selection: over the underlying positions, guarded by the mask (the loop
            # rule refuses guarded spaces unless a written summary handles the guard)
            src, mask = v.src, v.mask
            item = lambda i: src((i,))
            item.guard = mask
            item.masked = v
            return v.n, item
        return None

    def ev_Call(self, node, frame):
        # dropped: calls on the module-level logger
        f = node.func
        if isinstance(f, ast.Attribute) and isinstance(f.value, ast.Name) and f.value.id == "logger" \
                and "logger" not in frame.env:
            return None
        fn = self.eval(f, frame)
        if fn is DROPPED:
            return None
        args = []
        for a in node.args:
            if isinstance(a, ast.Starred):
                args.extend(self.iter_concrete(self.eval(a.value, frame)))
            else:
                args.append(self.eval(a, frame))
        kwargs = {}
        for k in node.keywords:
            if k.arg is None:
                kwargs.update(self.eval(k.value, frame).content)
            else:
                kwargs[k.arg] = self.eval(k.value, frame)
        return self.call(fn, args, kwargs, node)

    def call(self, fn, args, kwargs, node=None):
        if isinstance(fn, FuncVal):
            return self.call_function(fn, args, kwargs)
        if isinstance(fn, LambdaVal):
            a = fn.node.args
            env = dict(fn.env)
            for p, v in zip([x.arg for x in a.args], args):
                env[p] = v
            return self.eval(fn.node.body, Frame(fn.module, env, "<lambda>"))
        if isinstance(fn, ClassVal):
            return self.instantiate(fn, args, kwargs)
        if isinstance(fn, LibFunc):
            self.lib_used.add(fn.name)
            try:
                return fn.fn(self, *args, **kwargs)
            except TypeError as e:
                # the call form (an extra positional / keyword argument) is one the contract does not state: outside the model
                if "got an unexpected keyword argument" in str(e) or "positional argument" in str(e) or "got multiple values for" in str(e):
                    raise EngineError(f"{fn.name}: call form without a contract ({e})")
                raise
        if isinstance(fn, BoundLib):
            self.lib_used.add(fn.name)
            return self.lib.call_method(self, fn, args, kwargs)
        if callable(fn) and getattr(fn, "_pyvc_native", False):
            return fn(self, *args, **kwargs)
        raise EngineError(f"call of {fn!r}")

    def instantiate(self, cls: ClassVal, args, kwargs):
        if cls.is_enum:
            raise EngineError("enum call")
        if cls.is_dataclass and "__init__" not in cls.methods:
            attrs = {}
            names = [f[0] for f in cls.fields]
            for n, v in zip(names, args):
                attrs[n] = v
            for k, v in kwargs.items():
                if k not in names:
                    raise PyRaise("TypeError", f"unexpected keyword {k}")
                attrs[k] = v
            for n, d in cls.fields:
                if n not in attrs:
                    if d is None:
                        raise PyRaise("TypeError", f"missing field {n}")
                    attrs[n] = self.eval(d, Frame(cls.module, {}, cls.name))
            return new_obj(cls, attrs, frozen=cls.frozen, built_by_contract=False)
        obj = new_obj(cls, {}, frozen=False, built_by_contract=False)
        if "__init__" in cls.methods:
            self.call_function(FuncVal(cls.module, cls.methods["__init__"], bound=obj, cls=cls), args, kwargs)
        return obj


class _SymComp(Exception):
    def __init__(self, sym, gen):
        self.sym, self.gen = sym, gen
