"""Token-level model of strings and files (DESIGN I.9).  ASSUMED semantics, part of the trusted base.

Reading.  A text file opened for reading is a heap cell ``file`` = (pos, line_fn): ``readline()`` returns
``line_fn(pos)`` and advances ``pos`` by one; at end of file it returns the empty line (falsy).  A line is a
``LineVal``: a token list (what ``str.split()`` yields) or EOF.  A token is a literal word (``str``) or a hole
``Tok(kind, value)`` with kind 'int' | 'float' and a value term; ``int(tok)`` / ``float(tok)`` / numpy's string->float
conversion on assignment give the value (``int`` of a 'float' token raises ValueError, as in Python).  A numeric token
is never equal to a literal word and contains no whitespace.  Token lists may have a symbolic length (atom lines with
arbitrary trailing columns, neighbour rows); python slicing of a token list clamps like list slicing.

Writing.  A file opened for writing collects ``items``: written texts in program order; a symbolic loop whose body only
writes is summarised as a ``Block(var, lo, hi, items(var))`` (loops.py).  Texts are built from literals and holes by
``%``-formatting, f-strings, ``str()``, ``' '.join(map(str, …))`` (``Run``: a separated run of holes of symbolic length) and
``np.array2string`` (under the print options the code sets: no truncation, no wrapping) + ``re.sub('[\\[\\]]', ' ', …)``.
``Text.lines()`` splits a text with concrete structure into token lines.
"""
from __future__ import annotations

import ast
from fractions import Fraction

from . import arr as A
from . import sv
from .state import Content, cur
from .sv import SV, EngineError, is_conc, norm


class Tok:
    """a token hole ⟨kind, value⟩; kind in {'int', 'float'}; kind 'sym': an unknown word, value = dict of the string predicates
    the model gives it (e.g. {'isnumeric': <bool term>})"""
    __slots__ = ("kind", "value")

    def __init__(self, kind, value):
        self.kind, self.value = kind, value

    def __repr__(self):
        return f"⟨{self.kind}:{self.value}⟩"


class TokList:
    """result of line.split(): n tokens (n concrete or symbolic), fn(c) -> str | Tok"""
    __slots__ = ("n", "fn")

    def __init__(self, n, fn):
        self.n, self.fn = n, fn

    @staticmethod
    def of(items):
        items = list(items)
        return TokList(len(items), lambda c: items[int(c)] if is_conc(c) else _pick_tok(items, c))

    def concrete(self):
        return is_conc(self.n)

    def items(self):
        if not self.concrete():
            raise EngineError("iteration over a token list of symbolic length")
        return [self.fn(c) for c in range(int(self.n))]


def _pick_tok(items, c):
    if all(isinstance(x, Tok) and x.kind == items[0].kind for x in items):
        return Tok(items[0].kind, A._pick([norm(x.value) for x in items], c))
    raise EngineError("symbolic index into a heterogeneous token list")


class LineVal:
    """a line returned by readline(): eof (bool/SV) or tokens.  `props`: optional string predicates of a symbolic line,
    {'startswith': fn(prefix) -> bool term, 'eq': fn(string) -> bool term}"""
    __slots__ = ("eof", "toks", "props")

    def __init__(self, toks=None, eof=False, props=None):
        self.toks, self.eof, self.props = toks, eof, props


def line_eq(line, s):
    """line == s for a file line and a python string"""
    if line.props and "eq" in line.props:
        return line.props["eq"](s)
    raise EngineError("comparison of a file line with a string (the line model gives no `eq` predicate)")


def int_of(v):
    if isinstance(v, str):
        try:
            return int(v)
        except ValueError:
            from .interp import PyRaise
            raise PyRaise("ValueError", f"invalid literal for int(): {v!r}")
    if isinstance(v, Tok):
        if v.kind == "int":
            return v.value
        from .interp import PyRaise
        raise PyRaise("ValueError", "invalid literal for int() with base 10 (a float-formatted token)")
    if isinstance(v, LineVal):
        return int_of(_single_token(v))
    raise EngineError("int of token")


def float_of(v):
    if isinstance(v, str):
        try:
            return Fraction(v)
        except ValueError:
            from .interp import PyRaise
            raise PyRaise("ValueError", f"could not convert string to float: {v!r}")
    if isinstance(v, Tok):
        return sv.to_real(v.value)
    if isinstance(v, LineVal):
        return float_of(_single_token(v))
    raise EngineError("float of token")


def _single_token(line):
    if line.toks is None:
        from .interp import PyRaise
        raise PyRaise("ValueError", "invalid literal: empty line")
    if line.toks.concrete():
        if int(line.toks.n) != 1:
            from .interp import PyRaise
            raise PyRaise("ValueError", "invalid literal: line with several tokens")
        return line.toks.fn(0)
    cur().require(sv.cmp("==", line.toks.n, 1), "single-token-line")
    return line.toks.fn(0)


def tok_to_scalar(t, dtype="float"):
    """numpy conversion of a token stored into a numeric array"""
    if isinstance(t, (Tok, str)):
        return float_of(t) if dtype != "int" else int_of(t)
    return t


# ----------------------------------------------------------------------------------------------
# reading


def open_file(interp, path, mode="r", **kw):
    from .interp import Ref
    mode = mode if isinstance(mode, str) else "r"
    if "w" in mode or "a" in mode:
        return Ref(cur().alloc(Content("file", {"mode": "w", "path": path, "items": ()})), "file")
    st = cur()
    reg = getattr(st, "files", None) or {}
    key = path if isinstance(path, str) else repr(path)
    if key in reg:
        pos0, line_fn = reg[key][0], reg[key][1]
        d = {"mode": "r", "path": path, "pos": pos0, "line_fn": line_fn}
        if len(reg[key]) > 2:
            d["nlines"] = reg[key][2]          # total number of lines (needed by readlines())
        return Ref(st.alloc(Content("file", d)), "file")
    # no line model registered for this path: an opaque handle whose abstract position counts the records consumed by
    # contract-level readers (callee contracts advance it); readline() on it is outside the model
    return Ref(st.alloc(Content("file", {"mode": "r", "path": path, "pos": 0, "line_fn": None})), "file")


def new_rfile(pos, line_fn, path="<symbolic file>"):
    """symbolic text file opened for reading (contracts build these): line_fn(pos) -> LineVal"""
    from .interp import Ref
    return Ref(cur().alloc(Content("file", {"mode": "r", "path": path, "pos": pos, "line_fn": line_fn})), "file")


def file_method(interp, f, meth, args, kwargs):
    c = cur().heap.get(f.sid)
    if c is None:
        # e.g. a handle opened inside a summarised loop and used after it: engine limit (UNDECIDED), never a crash
        raise EngineError("file handle whose cell is not in the current heap (opened inside a summarised loop?)")
    d = c.data
    if meth == "readline":
        if d["mode"] != "r":
            from .interp import PyRaise
            raise PyRaise("UnsupportedOperation", "not readable")
        pos = d["pos"]
        if d.get("line_fn") is None:
            raise EngineError("readline() on a file without a line model")
        line = d["line_fn"](pos)
        nd = dict(d)
        nd["pos"] = A.simp(sv.add(pos, 1))
        cur().heap[f.sid] = Content("file", nd, c.meta)
        return line
    if meth == "readlines":
        if d["mode"] != "r":
            from .interp import PyRaise
            raise PyRaise("UnsupportedOperation", "not readable")
        if d.get("line_fn") is None or d.get("nlines") is None:
            raise EngineError("readlines() on a file without a line model / line count")
        from .interp import Ref
        pos, nl, lf = d["pos"], d["nlines"], d["line_fn"]
        nd = dict(d)
        nd["pos"] = nl
        cur().heap[f.sid] = Content("file", nd, c.meta)
        return Ref(cur().alloc(Content("list", A.SeqVal(A.simp(sv.sub(nl, pos)), lambda i, pos=pos: lf(A.simp(sv.add(pos, i)))))), "list")
    if meth == "write":
        if d["mode"] != "w":
            from .interp import PyRaise
            raise PyRaise("UnsupportedOperation", "not writable")
        nd = dict(d)
        nd["items"] = tuple(d["items"]) + (to_text(interp, args[0]),)
        cur().heap[f.sid] = Content("file", nd, c.meta)
        cur().trace.append(("write", f.sid, cur().where))
        return None
    if meth == "close":
        nd = dict(d)
        nd["closed"] = True
        cur().heap[f.sid] = Content("file", nd, c.meta)
        return None
    if meth in ("__enter__",):
        return f
    if meth in ("__exit__", "flush"):
        return None
    raise EngineError(f"file.{meth}")


def line_truth(interp, line):
    """truth value of a line: '' (EOF) is falsy"""
    if isinstance(line.eof, SV):
        return sv.not_(line.eof)
    return not line.eof


def line_method(interp, line, meth, args, kwargs):
    if meth == "split":
        if args:
            raise EngineError("split with a separator")
        if line.toks is None:
            return TokList.of([])
        return line.toks
    if meth in ("strip", "rstrip", "lstrip"):
        return line
    if meth == "startswith" and line.props and "startswith" in line.props and len(args) == 1 and isinstance(args[0], str):
        return line.props["startswith"](args[0])
    raise EngineError(f"str.{meth} on a file line")


def toklist_getitem(interp, tl, key):
    if isinstance(key, slice):
        if key.step is not None:
            raise EngineError("token slice step")
        n = tl.n
        lo = 0 if key.start is None else norm(key.start)
        hi = n if key.stop is None else norm(key.stop)
        if is_conc(lo) and lo < 0:
            lo = A.simp(sv.add(n, lo))
        if is_conc(hi) and hi < 0:
            hi = A.simp(sv.add(n, hi))
        if is_conc(lo) and is_conc(hi) and is_conc(n):
            lo2 = max(0, min(int(lo), int(n)))
            hi2 = max(lo2, min(int(hi), int(n)))
            base = tl.fn
            return TokList(hi2 - lo2, lambda c, lo2=lo2: base(lo2 + c if is_conc(c) else A.simp(sv.add(lo2, c))))
        # symbolic bounds: python clamps; we require the slice to lie inside the list (the line has the tokens the
        # caller is about to use): side obligation
        cur().require(sv.and_(sv.cmp("<=", 0, lo), sv.cmp("<=", lo, hi), sv.cmp("<=", hi, n)), "token-slice-inside-line")
        base = tl.fn
        return TokList(A.simp(sv.sub(hi, lo)), lambda c, lo=lo: base(A.simp(sv.add(lo, c))))
    k = norm(key)
    if is_conc(k):
        k = int(k)
        if k < 0:
            if not is_conc(tl.n):
                return tl.fn(A.simp(sv.add(tl.n, k)))
            k += int(tl.n)
        if is_conc(tl.n) and not (0 <= k < int(tl.n)):
            from .interp import PyRaise
            raise PyRaise("IndexError", "list index out of range")
        if not is_conc(tl.n):
            cur().require(sv.cmp("<", k, tl.n), "token-index-inside-line")
        return tl.fn(k)
    cur().require(sv.and_(sv.cmp(">=", k, 0), sv.cmp("<", k, tl.n)), "token-index-inside-line")
    return tl.fn(k)


def toklist_contains(interp, tl, item):
    if not isinstance(item, str):
        raise EngineError("'in' token list with a non-literal")
    if not tl.concrete():
        raise EngineError("'in' on a token list of symbolic length")
    return any(isinstance(x, str) and x == item for x in tl.items())


def toklist_to_array(tl, dtype=None):
    """np.array(tokens, dtype=float) / assignment of tokens into a numeric array"""
    dt = "float" if dtype in (None, "float") else dtype
    if tl.concrete():
        return A.from_nested([tok_to_scalar(x, dt) for x in tl.items()], dt)
    fn = tl.fn
    return A.new_arr((tl.n,), lambda idx: tok_to_scalar(fn(idx[0]), dt), dt)


# ----------------------------------------------------------------------------------------------
# writing: texts


class Run:
    """sep.join(str(x_t) for t < n): a separated run of numeric holes of (possibly symbolic) length"""
    __slots__ = ("n", "fn", "sep", "kind")

    def __init__(self, n, fn, sep, kind):
        self.n, self.fn, self.sep, self.kind = n, fn, sep, kind


class Text:
    """concatenation of pieces: str | Tok | Run | Rows"""
    __slots__ = ("pieces",)

    def __init__(self, pieces):
        out = []
        for p in pieces:
            if isinstance(p, Text):
                out.extend(p.pieces)
            elif isinstance(p, str):
                if p == "":
                    continue
                if out and isinstance(out[-1], str):
                    out[-1] = out[-1] + p
                else:
                    out.append(p)
            else:
                out.append(p)
        self.pieces = out

    def __repr__(self):
        return "Text(" + " ".join(repr(p) for p in self.pieces) + ")"


class Rows:
    """np.array2string of a 2-D integer array under threshold=linewidth=inf, brackets replaced by blanks:
    one line per row, the row's numbers separated by blanks"""
    __slots__ = ("n", "width", "fn")

    def __init__(self, n, width, fn):
        self.n, self.width, self.fn = n, width, fn   # fn(i, c) -> value


def to_text(interp, v):
    v = norm(v) if not isinstance(v, (Text, Tok, Run, Rows)) else v
    if isinstance(v, Text):
        return v
    if isinstance(v, (Tok, Run, Rows)):
        return Text([v])
    if isinstance(v, str):
        return Text([v])
    if isinstance(v, bool):
        return Text([str(v)])
    if isinstance(v, int):
        return Text([str(v)])
    if isinstance(v, SV) and v.is_int:
        return Text([Tok("int", v)])
    if isinstance(v, Fraction) or (isinstance(v, SV) and v.is_real):
        return Text([Tok("float", v)])
    raise EngineError(f"text of {type(v).__name__}")


def to_str(interp, v):
    """builtin str()"""
    v = norm(v)
    if isinstance(v, str):
        return v
    if isinstance(v, (bool, int)) and not isinstance(v, SV):
        return str(v)
    if isinstance(v, A.Arr) and v.shape == ():
        v = v.get(())
    return to_text(interp, v)


def percent_format(interp, fmt, args):
    """'%d %d ' % (a, b)  /  '%.6f' % x"""
    import re
    if not isinstance(args, tuple):
        args = (args,)
    args = list(args)
    pieces = []
    pos = 0
    for m in re.finditer(r"%(?:\.(\d+))?([dfs%ge])", fmt):
        pieces.append(fmt[pos:m.start()])
        pos = m.end()
        conv = m.group(2)
        if conv == "%":
            pieces.append("%")
            continue
        if not args:
            from .interp import PyRaise
            raise PyRaise("TypeError", "not enough arguments for format string")
        a = norm(args.pop(0))
        if isinstance(a, A.Arr) and a.shape == ():
            a = a.get(())
        if conv == "d":
            if isinstance(a, (Text, str)):
                from .interp import PyRaise
                raise PyRaise("TypeError", "%d format: a real number is required")
            pieces.append(Tok("int", sv.trunc(a)) if not (is_conc(a) and not isinstance(a, Fraction)) else str(int(a)))
        elif conv in ("f", "g", "e"):
            nd = int(m.group(1)) if m.group(1) else 6
            # %e / %g round to significant digits, not to decimals: the token carries the unrounded number
            pieces.append(Tok("float", sv.round_dec(sv.to_real(a), nd) if nd in (6, 8) and conv == "f" else sv.to_real(a)))
        else:
            pieces.append(to_str(interp, a) if not isinstance(a, (Text,)) else a)
    pieces.append(fmt[pos:])
    if args:
        from .interp import PyRaise
        raise PyRaise("TypeError", "not all arguments converted during string formatting")
    return Text(pieces)


def text_binop(interp, op, a, b):
    if op == "+":
        return Text([a if isinstance(a, (str, Text)) else to_text(interp, a), b if isinstance(b, (str, Text)) else to_text(interp, b)])
    raise EngineError(f"string operator {op}")


def fstring(interp, node, frame):
    parts = []
    for v in node.values:
        if isinstance(v, ast.Constant):
            parts.append(v.value)
            continue
        val = interp.eval(v.value, frame)
        spec = None
        if v.format_spec is not None:
            spec = "".join(x.value for x in v.format_spec.values if isinstance(x, ast.Constant))
        val = norm(val) if not isinstance(val, (Text, Tok)) else val
        if val is None and not spec:
            val = "None"
        if isinstance(val, str):
            parts.append(val)
        elif spec and spec.endswith("f"):
            nd = int(spec[1:-1]) if spec.startswith(".") and spec[1:-1].isdigit() else 6
            parts.append(Tok("float", sv.round_dec(sv.to_real(val), nd) if nd in (6, 8) else sv.to_real(val)))
        elif spec in (None, "", "d"):
            parts.append(to_str(interp, val))
        else:
            raise EngineError(f"f-string format spec {spec!r}")
    if all(isinstance(p, str) for p in parts):
        return "".join(parts)
    return Text(parts)


def str_join(interp, sep, it):
    """sep.join(iterable of strings / texts)"""
    from .interp import Ref
    it = norm(it) if not isinstance(it, MapStr) else it
    if isinstance(it, MapStr):
        a = it.arr
        r = a.reader()
        kind = "int" if a.dtype in ("int", "bool") else "float"
        return Text([Run(a.shape[0], lambda t: r((t,)), sep, kind)])
    items = interp.iter_concrete(it)
    out = []
    for k, x in enumerate(items):
        if k:
            out.append(sep)
        out.append(x if isinstance(x, (str, Text)) else to_text(interp, x))
    if all(isinstance(p, str) for p in out):
        return "".join(out)
    return Text(out)


class MapStr:
    """map(str, <1-D array>)"""
    def __init__(self, arr):
        self.arr = arr


def str_method(interp, s, meth, args, kwargs):
    from .interp import new_list
    if isinstance(s, LineVal):
        return line_method(interp, s, meth, args, kwargs)
    if meth == "join":
        return str_join(interp, s, args[0])
    if isinstance(s, Text):
        raise EngineError(f"Text.{meth}")
    if meth == "split":
        return new_list(s.split(*args))
    if meth in ("lower", "upper", "strip", "rstrip", "lstrip"):
        return getattr(s, meth)(*args)
    if meth in ("startswith", "endswith", "isnumeric", "isdigit"):
        return getattr(s, meth)(*args)
    if meth == "format":
        raise EngineError("str.format")
    raise EngineError(f"str.{meth}")


# ----------------------------------------------------------------------------------------------
# flattening written items into token lines (used by contracts to state what a writer produced)


class Block:
    """items written by a symbolic loop: for var in [lo, hi): items(var)"""
    __slots__ = ("var", "lo", "hi", "items")

    def __init__(self, var, lo, hi, items):
        self.var, self.lo, self.hi, self.items = var, lo, hi, items

    def at(self, i):
        """the items of iteration i"""
        import z3
        return tuple(subst_item(x, [(self.var, sv.znum(i))]) for x in self.items)


def subst_item(x, pairs):
    from .loops import _subst_val
    if isinstance(x, Text):
        return Text([subst_item(p, pairs) for p in x.pieces])
    if isinstance(x, str):
        return x
    if isinstance(x, Tok):
        return Tok(x.kind, _subst_val(x.value, pairs))
    if isinstance(x, Run):
        fn = x.fn
        return Run(_subst_val(x.n, pairs), (lambda t, fn=fn: _subst_val(fn(t), pairs)), x.sep, x.kind)
    if isinstance(x, Rows):
        fn = x.fn
        return Rows(_subst_val(x.n, pairs), _subst_val(x.width, pairs), (lambda i, c, fn=fn: _subst_val(fn(i, c), pairs)))
    if isinstance(x, Block):
        return Block(x.var, _subst_val(x.lo, pairs), _subst_val(x.hi, pairs), tuple(subst_item(y, pairs) for y in x.items))
    raise EngineError(f"item {type(x).__name__}")


def text_lines(items):
    """flatten a sequence of written Texts (no Block, no Rows) into lines of tokens.
    returns list of lines; a line is a list of tokens: str | Tok | Run.  The last element is the unfinished line ([] if the
    text ends with a newline)."""
    lines, curl = [], []
    pending = ""      # partial literal word

    def flush_word():
        nonlocal pending
        if pending:
            curl.append(pending)
            pending = ""
    for it in items:
        pieces = it.pieces if isinstance(it, Text) else [it]
        for p in pieces:
            if isinstance(p, str):
                for ch in p:
                    if ch == "\n":
                        flush_word()
                        lines.append(list(curl))
                        curl.clear()
                    elif ch in " \t\r":
                        flush_word()
                    else:
                        pending += ch
            elif isinstance(p, (Tok, Run)):
                if pending:
                    raise EngineError("a number is glued to a literal word in the written text")
                curl.append(p)
            else:
                raise EngineError(f"text_lines: {type(p).__name__}")
    flush_word()
    lines.append(list(curl))
    return lines
