"""Token-level model of strings and files (DESIGN I.9) — filled in with the reader/writer properties."""
from __future__ import annotations

from .sv import EngineError


class Tok:
    """a token hole ⟨kind, value⟩"""
    def __init__(self, kind, value):
        self.kind, self.value = kind, value


def percent_format(interp, fmt, args):
    raise EngineError("% formatting")


def text_binop(interp, op, a, b):
    raise EngineError(f"string operator {op}")


def fstring(interp, node, frame):
    import ast
    parts = []
    for v in node.values:
        if isinstance(v, ast.Constant):
            parts.append(v.value)
        else:
            val = interp.eval(v.value, frame)
            if isinstance(val, str):
                parts.append(val)
            else:
                from .sv import is_conc
                if is_conc(val) and not v.format_spec:
                    parts.append(str(val))
                else:
                    raise EngineError("f-string with symbolic value")
    return "".join(parts)


def str_method(interp, s, meth, args, kwargs):
    from .interp import new_list
    if meth == "split":
        return new_list(s.split(*args))
    if meth in ("lower", "upper", "strip"):
        return getattr(s, meth)(*args)
    if meth in ("startswith", "endswith"):
        return getattr(s, meth)(*args)
    if meth == "join":
        items = interp.iter_concrete(args[0])
        if all(isinstance(x, str) for x in items):
            return s.join(items)
    if meth == "format":
        raise EngineError("str.format")
    raise EngineError(f"str.{meth}")


def file_method(interp, f, meth, args, kwargs):
    raise EngineError(f"file.{meth}")


def open_file(interp, path, mode):
    raise EngineError("open()")


def int_of(v):
    if isinstance(v, str):
        return int(v)
    raise EngineError("int of token")


def float_of(v):
    from fractions import Fraction
    if isinstance(v, str):
        return Fraction(v)
    raise EngineError("float of token")


def to_str(interp, v):
    from .sv import is_conc
    if isinstance(v, str):
        return v
    if is_conc(v):
        return str(v)
    raise EngineError("str() of symbolic value")
