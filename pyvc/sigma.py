"""Big-operator terms.

``Sum(lo, hi, f)`` is  Σ_{t=lo}^{hi-1} f(t).  Concrete bounds are unrolled.  Otherwise the summand is
λ-lifted: every free constant of the body becomes a parameter, the closed body is hash-consed, and the
sum is an application  S_k(lo, hi, params…)  of an uninterpreted function.  The meaning of S_k is given
by axiom *instances* generated per application (axioms.py): empty range, unfold-last, unfold-first,
extensionality between two applications (Skolemised).  Queries therefore stay quantifier-free.
"""
from __future__ import annotations

import z3

from .sv import SV, Cx, EngineError, add, fresh_name, is_conc, norm, wrap, z, znum, zr


class SigmaDef:
    __slots__ = ("fn", "var", "params", "body", "name")

    def __init__(self, fn, var, params, body, name):
        self.fn, self.var, self.params, self.body, self.name = fn, var, params, body, name

    def body_at(self, x, args):
        subs = [(self.var, x)] + list(zip(self.params, args))
        return z3.substitute(self.body, *subs)


SELECTIONS = {}   # name of an enumeration function sel!k of a boolean-mask selection -> (decl, n, mask reader, count term)
REG = {}          # canonical key -> SigmaDef
BY_DECL = {}      # decl name -> SigmaDef


def free_consts(t, exclude=()):
    """uninterpreted constants (arity 0) of a term in first-occurrence order"""
    seen, out = set(), []
    excl = {e.get_id() for e in exclude}
    stack = [t]
    visited = set()
    order = []
    # iterative DFS preserving left-to-right order
    def visit(e):
        if e.get_id() in visited:
            return
        visited.add(e.get_id())
        if z3.is_const(e) and e.decl().kind() == z3.Z3_OP_UNINTERPRETED:
            if e.get_id() not in excl and e.get_id() not in seen:
                seen.add(e.get_id())
                out.append(e)
            return
        for c in e.children():
            visit(c)
    import sys
    sys.setrecursionlimit(max(sys.getrecursionlimit(), 20000))
    visit(t)
    return out


def _placeholder(sort, i):
    if sort == z3.IntSort():
        return z3.Int(f"P!i{i}")
    if sort == z3.RealSort():
        return z3.Real(f"P!r{i}")
    if sort == z3.BoolSort():
        return z3.Bool(f"P!b{i}")
    raise EngineError(f"sum over body with parameter of sort {sort}")


VAR0 = z3.Int("V!0")


def Sum(lo, hi, f):
    """Σ_{t=lo}^{hi-1} f(t); f maps an index value to a scalar value (conc / SV / Cx)"""
    lo, hi = norm(lo), norm(hi)
    if is_conc(lo) and is_conc(hi):
        acc = 0
        for t in range(int(lo), int(hi)):
            acc = add(acc, f(t))
        return acc
    t = z3.Int(fresh_name("t"))
    body = norm(f(SV(t)))
    if isinstance(body, Cx):
        return Cx(_sum_term(lo, hi, t, body.re), _sum_term(lo, hi, t, body.im))
    return _sum_term(lo, hi, t, body)


def _sum_term(lo, hi, t, body):
    if is_conc(body) and body == 0:
        return 0
    bt = znum(body)
    bt = z3.simplify(bt)
    if z3.is_int_value(bt) and bt.as_long() == 0:
        return 0
    if z3.is_rational_value(bt) and bt.numerator_as_long() == 0:
        return 0
    frees = free_consts(bt, exclude=[t])
    placeholders = [_placeholder(c.sort(), i) for i, c in enumerate(frees)]
    canon = z3.substitute(bt, (t, VAR0), *zip(frees, placeholders)) if frees else z3.substitute(bt, (t, VAR0))
    key = canon.sexpr()
    d = REG.get(key)
    if d is None:
        name = f"SUM{len(REG)}"
        fn = z3.Function(name, z3.IntSort(), z3.IntSort(), *[p.sort() for p in placeholders], bt.sort())
        d = SigmaDef(fn, VAR0, placeholders, canon, name)
        REG[key] = d
        BY_DECL[name] = d
    return SV(d.fn(z3.simplify(znum(lo)), z3.simplify(znum(hi)), *frees))


def Count(lo, hi, pred):
    """number of t in [lo,hi) with pred(t)"""
    from .sv import ite
    return Sum(lo, hi, lambda t: ite(pred(t), 1, 0))


def sigma_def_of(app):
    if z3.is_app(app) and app.decl().kind() == z3.Z3_OP_UNINTERPRETED:
        return BY_DECL.get(app.decl().name())
    return None
