"""Big-operator terms.

``Sum(lo, hi, f)`` is  Σ_{t=lo}^{hi-1} f(t).  Concrete bounds are unrolled.  Otherwise the summand is
λ-lifted: every free constant of the body becomes a parameter, the closed body is hash-consed, and the
sum is an application  S_k(lo, hi, params…)  of an uninterpreted function.  The meaning of S_k is given
by axiom *instances* generated per application (axioms.py): empty range, unfold-last, unfold-first,
extensionality between two applications (Skolemised).  Queries therefore stay quantifier-free.
"""
from __future__ import annotations

import z3

from .sv import SV, Cx, EngineError, add, fresh_name, is_conc, norm, wrap, z, znum, zr


class SigmaDef:
    __slots__ = ("fn", "var", "params", "body", "name")

    def __init__(self, fn, var, params, body, name):
        self.fn, self.var, self.params, self.body, self.name = fn, var, params, body, name

    def body_at(self, x, args):
        subs = [(self.var, x)] + list(zip(self.params, args))
        return z3.substitute(self.body, *subs)


SELECTIONS = {}   # name of an enumeration function sel!k of a boolean-mask selection -> (decl, n, mask reader, count term)
REG = {}          # canonical key -> SigmaDef
BY_DECL = {}      # decl name -> SigmaDef


def free_consts(t, exclude=()):
    """uninterpreted constants (arity 0) of a term in first-occurrence order"""
    seen, out = set(), []
    excl = {e.get_id() for e in exclude}
    stack = [t]
    visited = set()
    order = []
    # iterative DFS preserving left-to-right order
    def visit(e):
        if e.get_id() in visited:
            return
        visited.add(e.get_id())
        if z3.is_const(e) and e.decl().kind() == z3.Z3_OP_UNINTERPRETED:
            if e.get_id() not in excl and e.get_id() not in seen:
                seen.add(e.get_id())
                out.append(e)
            return
        for c in e.children():
            visit(c)
    import sys
    sys.setrecursionlimit(max(sys.getrecursionlimit(), 20000))
    visit(t)
    return out


def _placeholder(sort, i):
    if sort == z3.IntSort():
        return z3.Int(f"P!i{i}")
    if sort == z3.RealSort():
        return z3.Real(f"P!r{i}")
    if sort == z3.BoolSort():
        return z3.Bool(f"P!b{i}")
    raise EngineError(f"sum over body with parameter of sort {sort}")


VAR0 = z3.Int("V!0")


_AC_KINDS = None


def _ac_kinds():
    global _AC_KINDS
    if _AC_KINDS is None:
        _AC_KINDS = {z3.Z3_OP_AND: "and", z3.Z3_OP_OR: "or", z3.Z3_OP_ADD: "+", z3.Z3_OP_MUL: "*", z3.Z3_OP_EQ: "=",
                     z3.Z3_OP_DISTINCT: "distinct"}
    return _AC_KINDS


def canon_term(t):
    """rebuild a (simplified) term with the arguments of associative-commutative operators in an order that does not
    depend on z3's internal AST ids (z3.simplify sorts them by id, i.e. by creation order, which differs between two
    executions of the same code): arguments are ordered by a structural hash.  The result is logically equal to t."""
    import hashlib
    ac = _ac_kinds()
    memo = {}

    def go(e):
        i = e.get_id()
        r = memo.get(i)
        if r is not None:
            return r
        if z3.is_quantifier(e) or not z3.is_app(e) or e.num_args() == 0:
            if z3.is_app(e) and e.decl().kind() == z3.Z3_OP_UNINTERPRETED:
                # free constants (they become parameters, whatever their names) and the bound variable: by sort only
                key = "const|" + e.sort().name()
            else:
                key = "leaf|" + e.sexpr() + "|" + e.sort().name()
            r = (hashlib.sha1(key.encode()).hexdigest(), e)
            memo[i] = r
            return r
        d = e.decl()
        kids = [go(c) for c in e.children()]
        k = d.kind()
        if k in ac:
            kids = sorted(kids, key=lambda x: x[0])
            ch = [x[1] for x in kids]
            if k == z3.Z3_OP_AND:
                ne = z3.And(*ch)
            elif k == z3.Z3_OP_OR:
                ne = z3.Or(*ch)
            elif k == z3.Z3_OP_ADD:
                ne = ch[0]
                for c in ch[1:]:
                    ne = ne + c
            elif k == z3.Z3_OP_MUL:
                ne = ch[0]
                for c in ch[1:]:
                    ne = ne * c
            elif k == z3.Z3_OP_EQ:
                ne = ch[0] == ch[1]
            else:
                ne = z3.Distinct(*ch)
            name = ac[k]
        else:
            ch = [x[1] for x in kids]
            if all(a.eq(b) for a, b in zip(ch, e.children())):
                ne = e
            else:
                try:
                    ne = d(*ch)
                except Exception:
                    ne = e.decl()(*ch) if False else z3.substitute(e, *[(a, b) for a, b in zip(e.children(), ch) if not a.eq(b)])
            name = d.name() + "#" + str(k) + "#" + ",".join(str(d.params()[j]) for j in range(len(d.params()))) if k != z3.Z3_OP_UNINTERPRETED else "uf:" + d.name()
        h = hashlib.sha1((name + "(" + ",".join(x[0] for x in kids) + ")").encode()).hexdigest()
        r = (h, ne)
        memo[i] = r
        return r
    import sys
    sys.setrecursionlimit(max(sys.getrecursionlimit(), 20000))
    return go(t)[1]


def Sum(lo, hi, f):
    """Σ_{t=lo}^{hi-1} f(t); f maps an index value to a scalar value (conc / SV / Cx)"""
    lo, hi = norm(lo), norm(hi)
    if is_conc(lo) and is_conc(hi):
        acc = 0
        for t in range(int(lo), int(hi)):
            acc = add(acc, f(t))
        return acc
    t = z3.Int(fresh_name("t"))
    body = norm(f(SV(t)))
    if isinstance(body, Cx):
        return Cx(_sum_term(lo, hi, t, body.re), _sum_term(lo, hi, t, body.im))
    return _sum_term(lo, hi, t, body)


def _sum_term(lo, hi, t, body):
    if is_conc(body) and body == 0:
        return 0
    bt = znum(body)
    bt = z3.simplify(bt)
    if z3.is_int_value(bt) and bt.as_long() == 0:
        return 0
    if z3.is_rational_value(bt) and bt.numerator_as_long() == 0:
        return 0
    bt = canon_term(bt)
    frees = free_consts(bt, exclude=[t])
    placeholders = [_placeholder(c.sort(), i) for i, c in enumerate(frees)]
    canon = z3.substitute(bt, (t, VAR0), *zip(frees, placeholders)) if frees else z3.substitute(bt, (t, VAR0))
    key = canon.sexpr()
    d = REG.get(key)
    if d is None:
        name = f"SUM{len(REG)}"
        fn = z3.Function(name, z3.IntSort(), z3.IntSort(), *[p.sort() for p in placeholders], bt.sort())
        d = SigmaDef(fn, VAR0, placeholders, canon, name)
        REG[key] = d
        BY_DECL[name] = d
    return SV(d.fn(z3.simplify(znum(lo)), z3.simplify(znum(hi)), *frees))


def Count(lo, hi, pred):
    """number of t in [lo,hi) with pred(t)"""
    from .sv import ite
    return Sum(lo, hi, lambda t: ite(pred(t), 1, 0))


def sigma_def_of(app):
    if z3.is_app(app) and app.decl().kind() == z3.Z3_OP_UNINTERPRETED:
        return BY_DECL.get(app.decl().name())
    return None
