"""Ring normaliser: decides polynomial / rational-function identities by normal form, with congruence.

A z3 arithmetic term is brought to the form  num/den  with num, den sparse polynomials (dict: monomial ->
Fraction) over *atoms*.  Atoms are the non-arithmetic sub-terms:
  * applications of uninterpreted functions (sqrt, cos, rint, Σ-functions, input arrays R(i,j) …): two
    applications of the same symbol are the SAME atom iff all their arguments are equal as rational
    functions (cross-multiplication test) — congruence closure modulo ring identities;
  * everything else (ite, to_int, div, mod, comparisons …): by hash-consed term identity.
An equation a == b is an identity iff  num_a·den_b − num_b·den_a  is the zero polynomial.  Identities of
rational functions are meant *where all denominators are non-zero*; every symbolic divisor of the executed
program is a separate side obligation (`div0`) or a stated precondition (det H != 0).

`rewrites`: list of (uf_application_term, replacement_term): an atom that matches the application (same
symbol, ring-equal arguments) is replaced by the normal form of the replacement.  Each rewrite has to be
justified by a separately proved obligation; the normaliser only applies it.

This module is part of the trusted base (about 200 lines, no solver involved).
"""
from __future__ import annotations

from fractions import Fraction

import z3

ONE = ()     # empty monomial


def p_const(c):
    c = Fraction(c)
    return {ONE: c} if c != 0 else {}


def p_add(a, b, sb=1):
    out = dict(a)
    for m, c in b.items():
        v = out.get(m, 0) + sb * c
        if v == 0:
            out.pop(m, None)
        else:
            out[m] = v
    return out


def m_mul(m1, m2):
    if not m1:
        return m2
    if not m2:
        return m1
    d = dict(m1)
    for a, e in m2:
        d[a] = d.get(a, 0) + e
    return tuple(sorted(d.items()))


def p_mul(a, b):
    if not a or not b:
        return {}
    if len(a) > len(b):
        a, b = b, a
    out = {}
    for m1, c1 in a.items():
        for m2, c2 in b.items():
            m = m_mul(m1, m2)
            v = out.get(m, 0) + c1 * c2
            if v == 0:
                out.pop(m, None)
            else:
                out[m] = v
    return out


def p_is_const(p):
    return all(m == ONE for m in p)


class TooLarge(Exception):
    pass


class Normalizer:
    def __init__(self, rewrites=(), limit=400000):
        self.atoms = {}          # key -> atom id
        self.uf = {}             # decl name -> list of (args as RF list, atom id)
        self.cache = {}
        self.limit = limit
        self.rewrites = []       # (decl name, [arg RFs], replacement RF)
        self.atom_terms = {}
        for lhs, rhs in rewrites:
            lhs = lhs.t if hasattr(lhs, "t") else lhs
            rhs = rhs.t if hasattr(rhs, "t") else (rhs if isinstance(rhs, z3.ExprRef) else z3.RealVal(str(Fraction(rhs))))
            while z3.is_app(lhs) and lhs.decl().kind() == z3.Z3_OP_TO_REAL:
                lhs = lhs.arg(0)
            if not (z3.is_app(lhs) and lhs.decl().kind() == z3.Z3_OP_UNINTERPRETED and lhs.num_args() > 0):
                raise ValueError("rewrite lhs must be an uninterpreted application")
            self.rewrites.append((lhs.decl().name(), [self.nf(a) for a in lhs.children()], rhs))

    # ---- rational functions are pairs (num, den)
    def rf_const(self, c):
        return (p_const(c), p_const(1))

    def rf_add(self, a, b, sb=1):
        if a[1] == b[1]:
            return (p_add(a[0], b[0], sb), a[1])
        if p_is_const(a[1]) and p_is_const(b[1]):
            ca, cb = a[1].get(ONE, 0), b[1].get(ONE, 0)
            return (p_add({m: c / ca for m, c in a[0].items()}, {m: c / cb for m, c in b[0].items()}, sb), p_const(1))
        num = p_add(p_mul(a[0], b[1]), p_mul(b[0], a[1]), sb)
        den = p_mul(a[1], b[1])
        self._check(num)
        return (num, den)

    def rf_mul(self, a, b):
        num = p_mul(a[0], b[0])
        self._check(num)
        den = a[1] if p_is_const(b[1]) and b[1].get(ONE) == 1 else (b[1] if p_is_const(a[1]) and a[1].get(ONE) == 1 else p_mul(a[1], b[1]))
        return (num, den)

    def rf_div(self, a, b):
        return self.rf_mul(a, (b[1], b[0]))

    def rf_eq(self, a, b):
        if a[1] == b[1]:
            return not p_add(a[0], b[0], -1)
        return not p_add(p_mul(a[0], b[1]), p_mul(b[0], a[1]), -1)

    def _check(self, p):
        if len(p) > self.limit:
            raise TooLarge()

    def atom(self, key, term=None):
        a = self.atoms.get(key)
        if a is None:
            a = len(self.atoms) + 1
            self.atoms[key] = a
            self.atom_terms[a] = term
        return ({((a, 1),): Fraction(1)}, p_const(1))

    def nf(self, e):
        i = e.get_id()
        r = self.cache.get(i)
        if r is None:
            r = self._nf(e)
            self.cache[i] = r
        return r

    def _nf(self, e):
        if z3.is_int_value(e):
            return self.rf_const(e.as_long())
        if z3.is_rational_value(e):
            return self.rf_const(Fraction(e.numerator_as_long(), e.denominator_as_long()))
        if not z3.is_app(e):
            return self.atom(("id", e.get_id()), e)
        k = e.decl().kind()
        ch = e.children()
        if k == z3.Z3_OP_ADD:
            acc = self.nf(ch[0])
            for c in ch[1:]:
                acc = self.rf_add(acc, self.nf(c))
            return acc
        if k == z3.Z3_OP_SUB:
            acc = self.nf(ch[0])
            for c in ch[1:]:
                acc = self.rf_add(acc, self.nf(c), -1)
            return acc
        if k == z3.Z3_OP_UMINUS:
            a = self.nf(ch[0])
            return ({m: -c for m, c in a[0].items()}, a[1])
        if k == z3.Z3_OP_MUL:
            acc = self.nf(ch[0])
            for c in ch[1:]:
                acc = self.rf_mul(acc, self.nf(c))
            return acc
        if k == z3.Z3_OP_DIV:
            return self.rf_div(self.nf(ch[0]), self.nf(ch[1]))
        if k == z3.Z3_OP_TO_REAL:
            return self.nf(ch[0])
        if k == z3.Z3_OP_UNINTERPRETED:
            if not ch:
                return self.atom(("c", e.decl().name(), e.sort().name()), e)
            name = e.decl().name()
            args = [self.nf(c) for c in ch]
            for rn, rargs, rhs in self.rewrites:
                if rn == name and len(rargs) == len(args) and all(self.rf_eq(x, y) for x, y in zip(rargs, args)):
                    return self.nf(rhs)
            lst = self.uf.setdefault(name, [])
            for oargs, rf in lst:
                if all(self.rf_eq(x, y) for x, y in zip(oargs, args)):
                    return rf
            rf = self.atom(("uf", name, len(lst)), e)
            lst.append((args, rf))
            return rf
        if k == z3.Z3_OP_ITE and not z3.is_bool(e):
            # congruence for conditionals: same guard (syntactically, after simplification) and ring-equal branches
            c = z3.simplify(ch[0])
            a, b = self.nf(ch[1]), self.nf(ch[2])
            if self.rf_eq(a, b):
                return a
            lst = self.uf.setdefault("ite!", [])
            for (oc, oa, ob), rf in lst:
                if oc.eq(c) and self.rf_eq(oa, a) and self.rf_eq(ob, b):
                    return rf
            rf = self.atom(("ite", len(lst)), e)
            lst.append(((c, a, b), rf))
            return rf
        return self.atom(("id", e.get_id()), e)

    # ---- goals
    def holds(self, g):
        """True if the Boolean term g is established by ring identities alone (sound, incomplete)"""
        if z3.is_true(g):
            return True
        if z3.is_and(g):
            return all(self.holds(c) for c in g.children())
        if z3.is_app(g) and g.decl().kind() == z3.Z3_OP_IMPLIES:
            return self.holds(g.arg(1))
        if z3.is_or(g):
            return any(self.holds(c) for c in g.children())
        if z3.is_eq(g):
            a, b = g.children()
            if z3.is_bool(a):
                return a.eq(b)
            try:
                return self.rf_eq(self.nf(a), self.nf(b))
            except TooLarge:
                return False
        if z3.is_app(g) and g.decl().kind() in (z3.Z3_OP_LE, z3.Z3_OP_GE):
            a, b = g.children()
            try:
                d = self.rf_add(self.nf(a), self.nf(b), -1)
            except TooLarge:
                return False
            if p_is_const(d[0]) and p_is_const(d[1]) and d[1].get(ONE, 0) != 0:
                v = d[0].get(ONE, 0) / d[1].get(ONE)
                return v <= 0 if g.decl().kind() == z3.Z3_OP_LE else v >= 0
            return False
        return False


def ring_proves(goal, rewrites=()):
    try:
        return Normalizer(rewrites).holds(goal)
    except (TooLarge, RecursionError):
        return False


# ----------------------------------------------------------------------------------------------
# refutation by evaluation: a concrete assignment under which the assumptions hold and the goal is false


class CannotEvaluate(Exception):
    pass


def _round_half_even(f):
    import math
    fl = math.floor(f)
    d = f - fl
    if d < Fraction(1, 2):
        return fl
    if d > Fraction(1, 2):
        return fl + 1
    return fl if fl % 2 == 0 else fl + 1


class Evaluator:
    """evaluates z3 terms over exact rationals.  Uninterpreted constants and applications of input-array
    functions get values from `pick`; `rintz` has its real meaning; other interpreted-by-axiom symbols
    (sqrt, cos, Σ …) cannot be evaluated exactly -> CannotEvaluate."""

    def __init__(self, rng, scale=4):
        self.rng, self.scale = rng, scale
        self.consts = {}
        self.funcs = {}
        self.cache = {}

    def pick(self, sort, name):
        r = self.rng
        if sort.kind() == z3.Z3_BOOL_SORT:
            return r.random() < 0.5
        if sort.kind() == z3.Z3_INT_SORT:
            return r.randint(-self.scale, self.scale) if r.random() < 0.7 else r.randint(0, 3)
        k = r.random()
        if k < 0.35:
            return Fraction(r.randint(-4 * self.scale, 4 * self.scale), r.choice([1, 2, 3, 4, 5, 7]))
        if k < 0.7:
            return Fraction(r.randint(1, 6 * self.scale), r.choice([1, 2, 3]))
        return Fraction(r.randint(-30, 30), 1)

    def ev(self, e):
        i = e.get_id()
        if i in self.cache:
            return self.cache[i]
        v = self._ev(e)
        self.cache[i] = v
        return v

    def _ev(self, e):
        if z3.is_int_value(e):
            return e.as_long()
        if z3.is_rational_value(e):
            return Fraction(e.numerator_as_long(), e.denominator_as_long())
        if z3.is_true(e):
            return True
        if z3.is_false(e):
            return False
        if not z3.is_app(e):
            raise CannotEvaluate("quantifier")
        d = e.decl()
        k = d.kind()
        ch = e.children()
        if k == z3.Z3_OP_UNINTERPRETED:
            name = d.name()
            if not ch:
                if name not in self.consts:
                    self.consts[name] = self.pick(e.sort(), name)
                return self.consts[name]
            args = tuple(self.ev(c) for c in ch)
            if name == "rintz":
                return _round_half_even(Fraction(args[0]))
            if name.startswith("SUM") or name in ("sqrt", "exp", "log", "cos", "sin", "arccos", "atan2", "POW", "round6", "round8"):
                raise CannotEvaluate(name)
            tab = self.funcs.setdefault(name, {})
            if args not in tab:
                tab[args] = self.pick(e.sort(), name)
            return tab[args]
        if k == z3.Z3_OP_ADD:
            return sum(self.ev(c) for c in ch)
        if k == z3.Z3_OP_SUB:
            v = self.ev(ch[0])
            for c in ch[1:]:
                v = v - self.ev(c)
            return v
        if k == z3.Z3_OP_UMINUS:
            return -self.ev(ch[0])
        if k == z3.Z3_OP_MUL:
            v = 1
            for c in ch:
                v = v * self.ev(c)
            return v
        if k == z3.Z3_OP_DIV:
            b = self.ev(ch[1])
            if b == 0:
                raise CannotEvaluate("division by zero")
            return Fraction(self.ev(ch[0])) / Fraction(b)
        if k == z3.Z3_OP_IDIV:
            b = self.ev(ch[1])
            if b == 0:
                raise CannotEvaluate("division by zero")
            a = self.ev(ch[0])
            q = a // b if b > 0 else -(a // -b)
            return q
        if k == z3.Z3_OP_MOD:
            b = self.ev(ch[1])
            if b == 0:
                raise CannotEvaluate("mod zero")
            return self.ev(ch[0]) % abs(b)
        if k == z3.Z3_OP_TO_REAL:
            return Fraction(self.ev(ch[0]))
        if k == z3.Z3_OP_TO_INT:
            import math
            return math.floor(self.ev(ch[0]))
        if k == z3.Z3_OP_ITE:
            return self.ev(ch[1]) if self.ev(ch[0]) else self.ev(ch[2])
        if k == z3.Z3_OP_AND:
            return all(self.ev(c) for c in ch)
        if k == z3.Z3_OP_OR:
            return any(self.ev(c) for c in ch)
        if k == z3.Z3_OP_NOT:
            return not self.ev(ch[0])
        if k == z3.Z3_OP_IMPLIES:
            return (not self.ev(ch[0])) or self.ev(ch[1])
        if k == z3.Z3_OP_EQ:
            return self.ev(ch[0]) == self.ev(ch[1])
        if k == z3.Z3_OP_DISTINCT:
            vals = [self.ev(c) for c in ch]
            return len(set(vals)) == len(vals)
        if k == z3.Z3_OP_LE:
            return self.ev(ch[0]) <= self.ev(ch[1])
        if k == z3.Z3_OP_LT:
            return self.ev(ch[0]) < self.ev(ch[1])
        if k == z3.Z3_OP_GE:
            return self.ev(ch[0]) >= self.ev(ch[1])
        if k == z3.Z3_OP_GT:
            return self.ev(ch[0]) > self.ev(ch[1])
        if k == z3.Z3_OP_XOR:
            return bool(self.ev(ch[0])) != bool(self.ev(ch[1]))
        raise CannotEvaluate(d.name())

    def model(self):
        def f(v):
            if isinstance(v, bool):
                return v
            if isinstance(v, int):
                return v
            v = Fraction(v)
            return f"{v.numerator}/{v.denominator}" if v.denominator != 1 else v.numerator
        out = {k: f(v) for k, v in self.consts.items()}
        for name, tab in self.funcs.items():
            out[name] = {"__func__": [[f(a) for a in args] + [f(v)] for args, v in tab.items()], "else": None}
        return out


def refute_by_evaluation(assumptions, goal, tries=300, seed=0):
    """search for an exact rational assignment satisfying all assumptions and falsifying the goal.
    Returns a model dict or None.  A model found this way is a genuine counterexample of the obligation
    (no uninterpreted symbol other than input data is involved, otherwise evaluation is refused)."""
    import random
    rng = random.Random(12345 + seed)
    fails = 0
    for k in range(tries):
        ev = Evaluator(rng, scale=2 + k % 5)
        try:
            if ev.ev(goal):
                continue
            if all(ev.ev(a) for a in assumptions):
                return ev.model()
        except CannotEvaluate:
            fails += 1
            if fails > 5:
                return None
        except (ZeroDivisionError, OverflowError):
            continue
    return None


def crosscheck_identity(goal, tries=3, seed=0):
    """independent check of a goal the normaliser accepted WITHOUT rewrites: the goal must evaluate to true under random exact
    rational assignments (Schwartz-Zippel style; evaluation code shares nothing with the normal-form code).  Returns False only on a
    definite disagreement (the goal evaluates to false); unevaluable goals (uninterpreted symbols, division by zero) pass."""
    import os
    import random
    import sys
    rng = random.Random(99991 + seed)
    dbg = os.environ.get("PYVC_RING_STATS")
    for k in range(tries):
        ev = Evaluator(rng, scale=3 + 2 * k)
        try:
            if not ev.ev(goal):
                return False
            if dbg:
                sys.stderr.write("RINGX evaluated\n")
        except CannotEvaluate:
            if dbg:
                sys.stderr.write("RINGX cannot-evaluate\n")
            return True
        except (ZeroDivisionError, OverflowError, RecursionError):
            continue
    return True
