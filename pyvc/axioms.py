"""Axiom-instance generation (keeps every query quantifier-free).

Given the formulas of a query, collect the applications of the uninterpreted symbols the engine
introduces (sqrt, exp, log, cos, sin, arccos, atan2, POW, round6/8, pi, Σ-functions) and return the
instances of their axioms for exactly those applications.  The axioms are the ones listed in DESIGN I.7
and are part of the trusted base.
"""
from __future__ import annotations

import itertools

import z3

from . import sigma
from .sv import (F_RINT, F_ARCCOS, F_ATAN2, F_COS, F_EXP, F_LOG, F_POW, F_ROUND6, F_ROUND8, F_SIN, F_SQRT, PI,
                 fresh_name)

RV = z3.RealVal


def collect_apps(formulas):
    apps = {}
    visited = set()
    stack = list(formulas)
    while stack:
        e = stack.pop()
        i = e.get_id()
        if i in visited:
            continue
        visited.add(i)
        if z3.is_quantifier(e):
            stack.append(e.body())
            continue
        if z3.is_app(e):
            d = e.decl()
            if d.kind() == z3.Z3_OP_UNINTERPRETED and d.arity() > 0:
                apps.setdefault(d.name(), {})[i] = e
            stack.extend(e.children())
    return apps


def uses_pi(formulas):
    for f in formulas:
        for c in sigma.free_consts(f):
            if c.eq(PI.t):
                return True
    return False


def _const_offset(k):
    """integer constant term of a linear real term (None if there is none)"""
    k = z3.simplify(k)
    if z3.is_rational_value(k):
        return None   # fully constant exponents are handled by expansion in sv.power
    if z3.is_add(k):
        for ch in k.children():
            if z3.is_rational_value(ch) and ch.denominator_as_long() == 1:
                return ch.numerator_as_long()
    return None


def _key(e):
    return e.get_id()


def instances(formulas, opts=None):
    """one round of instances for the applications present in `formulas`"""
    opts = opts or {}
    out = []
    apps = collect_apps(formulas)
    pi = PI.t
    if uses_pi(formulas) or any(n in apps for n in ("cos", "sin", "arccos", "atan2")):
        out.append(z3.And(pi > RV("3.14159"), pi < RV("3.1416")))
    for e in apps.get("sqrt", {}).values():
        x = e.arg(0)
        out.append(e >= 0)
        out.append(z3.Implies(x >= 0, e * e == x))
        out.append(z3.Implies(x > 0, e > 0))
    sq = list(apps.get("sqrt", {}).values())
    if opts.get("sqrt_mul", True) and len(sq) <= 12:
        for a, b in itertools.combinations(sq, 2):
            # monotone / injective
            out.append(z3.Implies(z3.And(a.arg(0) >= 0, b.arg(0) >= 0, a.arg(0) == b.arg(0)), a == b))
    for zi in apps.get("rintz", {}).values():
        # round half to even (numpy.rint, python round): the unique integer within 1/2, even at ties
        x = zi.arg(0)
        e = z3.ToReal(zi)
        half = RV("1/2")
        out.append(z3.And(x - e <= half, e - x <= half, z3.Implies(z3.Or(x - e == half, e - x == half), zi % 2 == 0)))
    for e in apps.get("exp", {}).values():
        out.append(e > 0)
    ex = list(apps.get("exp", {}).values())
    lg = list(apps.get("log", {}).values())
    for e in lg:
        x = e.arg(0)
        # log(exp(y)) = y when the argument is syntactically an exp application
        if z3.is_app(x) and x.decl().name() == "exp":
            out.append(e == x.arg(0))
        out.append(z3.Implies(x == 1, e == 0))
    for e in apps.get("cos", {}).values():
        x = e.arg(0)
        s = F_SIN(x)
        out.append(e * e + s * s == 1)
        out.append(z3.And(e >= -1, e <= 1, s >= -1, s <= 1))
    for e in apps.get("sin", {}).values():
        x = e.arg(0)
        c = F_COS(x)
        out.append(e * e + c * c == 1)
        out.append(z3.And(e >= -1, e <= 1, c >= -1, c <= 1))
    for e in apps.get("arccos", {}).values():
        u = e.arg(0)
        out.append(z3.Implies(z3.And(u >= -1, u <= 1),
                              z3.And(e >= 0, e <= pi, F_COS(e) == u, F_SIN(e) >= 0,
                                     F_SIN(e) * F_SIN(e) == 1 - u * u)))
    for e in apps.get("atan2", {}).values():
        y, x = e.arg(0), e.arg(1)
        r = F_SQRT(x * x + y * y)
        out.append(z3.Implies(z3.Or(x != 0, y != 0),
                              z3.And(r * F_COS(e) == x, r * F_SIN(e) == y, e > -pi, e <= pi)))
    pw = list(apps.get("POW", {}).values())
    for e in pw:
        a, k = e.arg(0), e.arg(1)
        out.append(z3.Implies(a > 0, e > 0))
        out.append(z3.Implies(z3.And(a != 0, k == 0), e == 1))
        out.append(z3.Implies(k == 1, e == a))
    for e in pw:
        a, k = e.arg(0), e.arg(1)
        out.append(z3.Implies(z3.And(a == 0, k > 0), e == 0))
        c = _const_offset(k)
        if c is not None and c != 0 and abs(c) <= 6:
            e0 = z3.simplify(k - RV(c))
            P0 = F_POW(a, e0)
            ak = RV(1)
            for _ in range(abs(c)):
                ak = ak * a
            if c > 0:
                out.append(z3.Implies(a > 0, e == P0 * ak))
            else:
                out.append(z3.Implies(a > 0, z3.And(e * ak == P0, e == P0 / ak)))
    # POW(a, e) with e = (explicit integer shift) not paired with another app: relate to POW(a,e-1)
    for nm, fn, dec in (("round6", F_ROUND6, 6), ("round8", F_ROUND8, 8)):
        rs = list(apps.get(nm, {}).values())
        half = RV("1/2") * (RV(1) / RV(10 ** dec))
        for e in rs:
            x = e.arg(0)
            out.append(z3.And(e - x <= half, x - e <= half))
            out.append(z3.Implies(x >= 0, e >= 0))
            out.append(z3.Implies(x <= 0, e <= 0))
        for a, b in itertools.combinations(rs, 2):
            out.append(z3.Implies(a.arg(0) <= b.arg(0), a <= b))
            out.append(z3.Implies(a.arg(0) >= b.arg(0), a >= b))
    # facts about input arrays (registered by contracts): instantiated for every application present
    for fname, fact in (opts.get("array_facts") or []):
        for e in apps.get(fname, {}).values():
            try:
                out.append(fact(*e.children()))
            except Exception:  # pragma: no cover
                pass
    # Σ instances
    sig_apps = []
    for name, d in apps.items():
        sd = sigma.BY_DECL.get(name)
        if sd is None:
            continue
        for e in d.values():
            sig_apps.append((sd, e))
    for sd, e in sig_apps:
        lo, hi = e.arg(0), e.arg(1)
        args = [e.arg(i) for i in range(2, e.num_args())]
        zero = z3.IntVal(0) if z3.is_int(e) else RV(0)
        out.append(z3.Implies(hi <= lo, e == zero))
        if opts.get("unfold", True):
            last = sd.fn(lo, z3.simplify(hi - 1), *args)
            out.append(z3.Implies(hi > lo, e == last + sd.body_at(z3.simplify(hi - 1), args)))
        if opts.get("unfold_first", False):
            first = sd.fn(z3.simplify(lo + 1), hi, *args)
            out.append(z3.Implies(hi > lo, e == sd.body_at(lo, args) + first))
    if opts.get("ext", True) and len(sig_apps) <= 40:
        for (sd1, e1), (sd2, e2) in itertools.combinations(sig_apps, 2):
            if e1.sort() != e2.sort():
                continue
            lo1, hi1, lo2, hi2 = e1.arg(0), e1.arg(1), e2.arg(0), e2.arg(1)
            if not (z3.simplify(lo1 - lo2).eq(z3.IntVal(0)) and z3.simplify(hi1 - hi2).eq(z3.IntVal(0))):
                if not opts.get("ext_all", False):
                    continue
            x = z3.Int(f"ext!{e1.get_id()}!{e2.get_id()}")
            a1 = [e1.arg(i) for i in range(2, e1.num_args())]
            a2 = [e2.arg(i) for i in range(2, e2.num_args())]
            b1, b2 = sd1.body_at(x, a1), sd2.body_at(x, a2)
            out.append(z3.Implies(z3.And(lo1 == lo2, hi1 == hi2,
                                         z3.Implies(z3.And(lo1 <= x, x < hi1), b1 == b2)), e1 == e2))
    if opts.get("zero_body", False) and len(sig_apps) <= 40:
        # a sum whose summand vanishes on the whole range is 0 (Skolemised: the witness x is chosen by the solver)
        for sd, e in sig_apps:
            if not _indicator(sd.body):
                continue      # only counting sums (indicator summands): keeps the instance set small
            lo, hi = e.arg(0), e.arg(1)
            args = [e.arg(i) for i in range(2, e.num_args())]
            x = z3.Int(f"zb!{e.get_id()}")
            zero = z3.IntVal(0) if z3.is_int(e) else RV(0)
            out.append(z3.Implies(z3.Implies(z3.And(lo <= x, x < hi), sd.body_at(x, args) == zero), e == zero))
    if opts.get("ext_tail", False) and len(sig_apps) <= 40:
        # zero tail (split + empty contribution): same lower bound, hi1 <= hi2, bodies agree on [lo, hi1), second body vanishes
        # on [hi1, hi2)  ==>  equal sums   (Skolemised like extensionality; e.g. a row padded with zeros beyond its length)
        for (sd1, e1), (sd2, e2) in itertools.permutations(sig_apps, 2):
            if e1.sort() != e2.sort():
                continue
            lo1, hi1, lo2, hi2 = e1.arg(0), e1.arg(1), e2.arg(0), e2.arg(1)
            if not z3.simplify(lo1 - lo2).eq(z3.IntVal(0)) or z3.simplify(hi1 - hi2).eq(z3.IntVal(0)):
                continue
            if sd1 is not sd2 and not (_indicator(sd1.body) and _indicator(sd2.body)):
                continue      # candidates: the same summand over two ranges, or two counting sums
            x = z3.Int(f"tail!{e1.get_id()}!{e2.get_id()}")
            a1 = [e1.arg(i) for i in range(2, e1.num_args())]
            a2 = [e2.arg(i) for i in range(2, e2.num_args())]
            b1, b2 = sd1.body_at(x, a1), sd2.body_at(x, a2)
            zero = z3.IntVal(0) if z3.is_int(e1) else RV(0)
            out.append(z3.Implies(z3.And(hi1 <= hi2, z3.Implies(z3.And(lo1 <= x, x < hi1), b1 == b2),
                                         z3.Implies(z3.And(hi1 <= x, x < hi2), b2 == zero)), e1 == e2))
    return out


def _indicator(b):
    return z3.is_app(b) and b.decl().kind() == z3.Z3_OP_ITE and all(z3.is_int_value(c) or z3.is_rational_value(c) for c in b.children()[1:])


def saturate(formulas, rounds=2, opts=None):
    """instances for `formulas`, then for the instances themselves, `rounds` times"""
    allf = list(formulas)
    seen = set(f.get_id() for f in allf)
    added = []
    frontier = list(formulas)
    for r in range(rounds):
        o = dict(opts or {})
        if r > 0:
            o["unfold"] = o.get("unfold_deep", False)
            o["unfold_first"] = False
        new = []
        for inst in instances(allf if r == 0 else allf, o):
            if inst.get_id() not in seen:
                seen.add(inst.get_id())
                new.append(inst)
        if not new:
            break
        added.extend(new)
        allf.extend(new)
    return added
