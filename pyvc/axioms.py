"""Axiom-instance generation (keeps every query quantifier-free).

Given the formulas of a query, collect the applications of the uninterpreted symbols the engine
introduces (sqrt, exp, log, cos, sin, arccos, atan2, POW, round6/8, pi, Σ-functions) and return the
instances of their axioms for exactly those applications.  The axioms are the ones listed in DESIGN I.7
and are part of the trusted base.
"""
from __future__ import annotations

import itertools

import z3

from . import sigma
from .sv import (F_RINT, F_ARCCOS, F_ATAN2, F_COS, F_EXP, F_LOG, F_POW, F_ROUND6, F_ROUND8, F_SIN, F_SQRT, PI,
                 fresh_name)

RV = z3.RealVal


# ASSUMED universally quantified facts about an uninterpreted symbol introduced by a library contract or a unit's
# precondition (e.g. "every column of the eigenvector matrix has norm 1", "every particle type is in 1..K"):
# symbol name -> callable(application term) -> list of z3 facts (the instances for that application's arguments).
# Instantiation is per application occurring in a query, like the Σ axioms; the registering contract lists the fact as assumed.
QFACTS = {}


def collect_apps(formulas):
    apps = {}
    visited = set()
    stack = list(formulas)
    while stack:
        e = stack.pop()
        i = e.get_id()
        if i in visited:
            continue
        visited.add(i)
        if z3.is_quantifier(e):
            stack.append(e.body())
            continue
        if z3.is_app(e):
            d = e.decl()
            if d.kind() == z3.Z3_OP_UNINTERPRETED and d.arity() > 0:
                apps.setdefault(d.name(), {})[i] = e
            stack.extend(e.children())
    return apps


def uses_pi(formulas):
    """does the constant pi occur? (one traversal with a visited set shared by all formulas)"""
    pid = PI.t.get_id()
    seen = set()
    stack = list(formulas)
    while stack:
        e = stack.pop()
        i = e.get_id()
        if i in seen:
            continue
        seen.add(i)
        if i == pid:
            return True
        if z3.is_quantifier(e):
            stack.append(e.body())
        elif z3.is_app(e) and e.num_args():
            stack.extend(e.children())
    return False


def _const_offset(k):
    """integer constant term of a linear real term (None if there is none)"""
    k = z3.simplify(k)
    if z3.is_rational_value(k):
        return None   # fully constant exponents are handled by expansion in sv.power
    if z3.is_add(k):
        for ch in k.children():
            if z3.is_rational_value(ch) and ch.denominator_as_long() == 1:
                return ch.numerator_as_long()
    return None


def _mentions(t, v):
    """does term t contain the constant v"""
    seen = set()
    stack = [t]
    while stack:
        e = stack.pop()
        if e.get_id() in seen:
            continue
        seen.add(e.get_id())
        if e.eq(v):
            return True
        stack.extend(e.children())
    return False


def _linear_instances(et, es, depth=0):
    out = []
    sdt = sigma.sigma_def_of(et)
    sds = [sigma.sigma_def_of(e) for e in es]
    if sdt is None or any(d is None for d in sds) or not es:
        return out
    lo, hi = et.arg(0), et.arg(1)
    same = z3.And(*[z3.And(e.arg(0) == lo, e.arg(1) == hi) for e in es])
    x = z3.Int("lin!%d!%s" % (et.get_id(), "!".join(str(e.get_id()) for e in es)))
    bt = sdt.body_at(x, [et.arg(i) for i in range(2, et.num_args())])
    bs = [d.body_at(x, [e.arg(i) for i in range(2, e.num_args())]) for d, e in zip(sds, es)]

    def R(t):
        return z3.ToReal(t) if z3.is_int(t) else t
    mixed = any(z3.is_real(t) for t in [et] + list(es))
    cast = R if mixed else (lambda t: t)
    tot_b = cast(bs[0])
    tot_e = cast(es[0])
    for b, e in zip(bs[1:], es[1:]):
        tot_b = tot_b + cast(b)
        tot_e = tot_e + cast(e)
    out.append(z3.Implies(z3.And(same, z3.Implies(z3.And(lo <= x, x < hi), cast(bt) == tot_b)), cast(et) == tot_e))
    if depth < 3 and sigma.sigma_def_of(bt) is not None and all(sigma.sigma_def_of(b) is not None for b in bs):
        out.extend(_linear_instances(bt, bs, depth + 1))
    return out


def _reindex_selection(sd, e):
    from . import sv as _sv
    lo, hi = e.arg(0), e.arg(1)
    args = [e.arg(i) for i in range(2, e.num_args())]
    x = z3.Int(f"reidx!{e.get_id()}")
    b = sd.body_at(x, args)
    # applications sel(x) in the body
    found = {}
    seen = set()
    stack = [b]
    while stack:
        t = stack.pop()
        if t.get_id() in seen:
            continue
        seen.add(t.get_id())
        if z3.is_app(t) and t.decl().kind() == z3.Z3_OP_UNINTERPRETED and t.decl().name() in sigma.SELECTIONS \
                and t.num_args() == 1 and t.arg(0).eq(x):
            found[t.decl().name()] = t
            continue
        stack.extend(t.children())
    if len(found) != 1:
        return None
    name, app = next(iter(found.items()))
    f, n, mask, cnt = sigma.SELECTIONS[name]
    if not (z3.is_int_value(lo) and lo.as_long() == 0 and z3.simplify(hi - _sv.znum(cnt)).eq(z3.IntVal(0))):
        return None
    j = z3.Int(f"reidxj!{e.get_id()}")
    b2 = z3.substitute(b, (app, j))
    if _mentions(b2, x):
        return None
    zero = 0 if z3.is_int(e) else _sv.to_frac(0.0)
    total = sigma.Sum(0, n, lambda t: _sv.ite(mask(t), _sv.wrap(z3.substitute(b2, (j, _sv.znum(t)))), zero))
    return e == _sv.znum(total) if z3.is_int(e) == z3.is_int(_sv.znum(total)) else e == z3.ToReal(_sv.znum(total))


def _key(e):
    return e.get_id()


def instances(formulas, opts=None):
    """one round of instances for the applications present in `formulas`"""
    opts = opts or {}
    out = []
    apps = collect_apps(formulas)
    pi = PI.t
    if uses_pi(formulas) or any(n in apps for n in ("cos", "sin", "arccos", "atan2")):
        out.append(z3.And(pi > RV("3.14159"), pi < RV("3.1416")))
    for e in apps.get("sqrt", {}).values():
        x = e.arg(0)
        out.append(e >= 0)
        out.append(z3.Implies(x >= 0, e * e == x))
        out.append(z3.Implies(x > 0, e > 0))
    sq = list(apps.get("sqrt", {}).values())
    if opts.get("sqrt_mul", True) and len(sq) <= 12:
        for a, b in itertools.combinations(sq, 2):
            # monotone / injective
            out.append(z3.Implies(z3.And(a.arg(0) >= 0, b.arg(0) >= 0, a.arg(0) == b.arg(0)), a == b))
    for zi in apps.get("rintz", {}).values():
        # round half to even (numpy.rint, python round): the unique integer within 1/2, even at ties
        x = zi.arg(0)
        e = z3.ToReal(zi)
        half = RV("1/2")
        out.append(z3.And(x - e <= half, e - x <= half, z3.Implies(z3.Or(x - e == half, e - x == half), zi % 2 == 0)))
    for e in apps.get("exp", {}).values():
        out.append(e > 0)
    ex = list(apps.get("exp", {}).values())
    lg = list(apps.get("log", {}).values())
    for e in lg:
        x = e.arg(0)
        # log(exp(y)) = y when the argument is syntactically an exp application
        if z3.is_app(x) and x.decl().name() == "exp":
            out.append(e == x.arg(0))
        out.append(z3.Implies(x == 1, e == 0))
    for e in apps.get("cos", {}).values():
        x = e.arg(0)
        s = F_SIN(x)
        out.append(e * e + s * s == 1)
        out.append(z3.And(e >= -1, e <= 1, s >= -1, s <= 1))
    for e in apps.get("sin", {}).values():
        x = e.arg(0)
        c = F_COS(x)
        out.append(e * e + c * c == 1)
        out.append(z3.And(e >= -1, e <= 1, c >= -1, c <= 1))
    for e in apps.get("arccos", {}).values():
        u = e.arg(0)
        out.append(z3.Implies(z3.And(u >= -1, u <= 1),
                              z3.And(e >= 0, e <= pi, F_COS(e) == u, F_SIN(e) >= 0,
                                     F_SIN(e) * F_SIN(e) == 1 - u * u)))
    for e in apps.get("atan2", {}).values():
        y, x = e.arg(0), e.arg(1)
        r = F_SQRT(x * x + y * y)
        out.append(z3.Implies(z3.Or(x != 0, y != 0),
                              z3.And(r * F_COS(e) == x, r * F_SIN(e) == y, e > -pi, e <= pi)))
    pw = list(apps.get("POW", {}).values())
    for e in pw:
        a, k = e.arg(0), e.arg(1)
        out.append(z3.Implies(a > 0, e > 0))
        out.append(z3.Implies(z3.And(a != 0, k == 0), e == 1))
        out.append(z3.Implies(k == 1, e == a))
    for e in pw:
        a, k = e.arg(0), e.arg(1)
        out.append(z3.Implies(z3.And(a == 0, k > 0), e == 0))
        c = _const_offset(k)
        if c is not None and c != 0 and abs(c) <= 6:
            e0 = z3.simplify(k - RV(c))
            P0 = F_POW(a, e0)
            ak = RV(1)
            for _ in range(abs(c)):
                ak = ak * a
            if c > 0:
                out.append(z3.Implies(a > 0, e == P0 * ak))
            else:
                out.append(z3.Implies(a > 0, z3.And(e * ak == P0, e == P0 / ak)))
    # POW(a, e) with e = (explicit integer shift) not paired with another app: relate to POW(a,e-1)
    for nm, fn, dec in (("round6", F_ROUND6, 6), ("round8", F_ROUND8, 8)):
        rs = list(apps.get(nm, {}).values())
        half = RV("1/2") * (RV(1) / RV(10 ** dec))
        for e in rs:
            x = e.arg(0)
            out.append(z3.And(e - x <= half, x - e <= half))
            out.append(z3.Implies(x >= 0, e >= 0))
            out.append(z3.Implies(x <= 0, e <= 0))
        for a, b in itertools.combinations(rs, 2):
            out.append(z3.Implies(a.arg(0) <= b.arg(0), a <= b))
            out.append(z3.Implies(a.arg(0) >= b.arg(0), a >= b))
    # facts about input arrays (registered by contracts): instantiated for every application present
    for fname, fact in (opts.get("array_facts") or []):
        for e in apps.get(fname, {}).values():
            try:
                out.append(fact(*e.children()))
            except Exception:  # pragma: no cover
                pass
    # grouped relational facts (relops.py): also instantiated at every integer constant of the query (and 0), for the
    # parameter tuples with which any function of the group occurs
    grouped = [(fname, fact) for fname, fact in (opts.get("array_facts") or []) if getattr(fact, "_group", None)]
    if grouped:
        int_consts = [c for f in formulas for c in sigma.free_consts(f) if z3.is_int(c)]
        seen_c, consts = set(), [z3.IntVal(0)]
        for c in int_consts:
            if c.get_id() not in seen_c and len(consts) < 14:
                seen_c.add(c.get_id())
                consts.append(c)
        for fname, fact in grouped:
            ptuples = {}
            for g in fact._group:
                for e in apps.get(g, {}).values():
                    ps = tuple(e.children()[1:])
                    ptuples[tuple(x.get_id() for x in ps)] = ps
            for ps in ptuples.values():
                for c in consts:
                    try:
                        out.append(fact(c, *ps))
                    except Exception:  # pragma: no cover
                        pass
    for name, fn in QFACTS.items():
        for e in apps.get(name, {}).values():
            out.extend(fn(e))
    # Σ instances
    sig_apps = []
    for name, d in apps.items():
        sd = sigma.BY_DECL.get(name)
        if sd is None:
            continue
        for e in d.values():
            sig_apps.append((sd, e))
    for sd, e in sig_apps:
        lo, hi = e.arg(0), e.arg(1)
        args = [e.arg(i) for i in range(2, e.num_args())]
        zero = z3.IntVal(0) if z3.is_int(e) else RV(0)
        out.append(z3.Implies(hi <= lo, e == zero))
        if opts.get("const_sum", False) and not _mentions(sd.body, sd.var):
            # (opt-in) constant summand: sum_{t=lo}^{hi-1} c = c (hi - lo)
            cnt = (hi - lo) if z3.is_int(e) else z3.ToReal(hi - lo)
            out.append(z3.Implies(hi >= lo, e == sd.body_at(lo, args) * cnt))
        only = opts.get("unfold_only")      # optional: names of the Σ-functions whose applications are unfolded
        if opts.get("unfold", True) and (only is None or sd.name in only):
            last = sd.fn(lo, z3.simplify(hi - 1), *args)
            out.append(z3.Implies(hi > lo, e == last + sd.body_at(z3.simplify(hi - 1), args)))
        if opts.get("unfold_first", False):
            first = sd.fn(z3.simplify(lo + 1), hi, *args)
            out.append(z3.Implies(hi > lo, e == sd.body_at(lo, args) + first))
    # re-indexing along the enumeration of a boolean-mask selection (assumed bijection sel: [0,count) -> {j<n: mask_j}):
    #   sum_{p=0}^{count-1} g(sel(p)) = sum_{j=0}^{n-1} [mask_j] g(j)      (g must not depend on p otherwise)
    if sigma.SELECTIONS:
        for sd, e in sig_apps:
            inst = _reindex_selection(sd, e)
            if inst is not None:
                out.append(inst)
    # linearity for designated applications (contracts pass opts["sigma_linear"] = [(total, [parts...])]):
    #   (forall x in range: body_total(x) = sum_c body_c(x))  ->  total = sum_c part_c      (Skolemised like extensionality)
    for et, es in (opts.get("sigma_linear") or []):
        out.extend(_linear_instances(et, list(es)))
    groups = opts.get("_ext_groups")
    if opts.get("ext", True) and groups is not None:
        # local mode (opt-in, `ext_local`): pair two Σ-applications only when they occur in the same formula of the group
        # list (the goal with its assumptions in the first round, afterwards each instance generated by the previous
        # round) — the applications that an extensionality step at one Skolem index puts side by side
        pairs = []
        for grp in groups:
            ga = []
            for name, d in collect_apps(grp).items():
                sd = sigma.BY_DECL.get(name)
                if sd is not None:
                    ga.extend((sd, e) for e in d.values())
            if len(ga) <= opts.get("ext_limit", 40):
                pairs.extend(itertools.combinations(ga, 2))
    elif opts.get("ext", True) and len(sig_apps) <= opts.get("ext_limit", 40):
        pairs = itertools.combinations(sig_apps, 2)
    else:
        pairs = []
    if True:
        done = opts.get("_ext_done")
        for (sd1, e1), (sd2, e2) in pairs:
            mixed = e1.sort() != e2.sort()
            if mixed and not (z3.is_arith(e1) and z3.is_arith(e2)):
                continue
            if done is not None:
                # one extensionality instance (one Skolem index) per pair of applications and saturation run
                pk = (e1.get_id(), e2.get_id()) if e1.get_id() < e2.get_id() else (e2.get_id(), e1.get_id())
                if pk in done:
                    continue
            lo1, hi1, lo2, hi2 = e1.arg(0), e1.arg(1), e2.arg(0), e2.arg(1)
            if not (z3.simplify(lo1 - lo2).eq(z3.IntVal(0)) and z3.simplify(hi1 - hi2).eq(z3.IntVal(0))):
                if not opts.get("ext_all", False):
                    continue
            if done is not None:
                done.add(pk)
            x = z3.Int(f"ext!{e1.get_id()}!{e2.get_id()}")
            a1 = [e1.arg(i) for i in range(2, e1.num_args())]
            a2 = [e2.arg(i) for i in range(2, e2.num_args())]
            b1, b2 = sd1.body_at(x, a1), sd2.body_at(x, a2)
            if mixed:
                # an integer-valued and a real-valued sum: the embedding Z -> R commutes with finite sums
                b1, b2 = (z3.ToReal(b1) if z3.is_int(b1) else b1), (z3.ToReal(b2) if z3.is_int(b2) else b2)
                e1, e2 = (z3.ToReal(e1) if z3.is_int(e1) else e1), (z3.ToReal(e2) if z3.is_int(e2) else e2)
            out.append(z3.Implies(z3.And(lo1 == lo2, hi1 == hi2,
                                         z3.Implies(z3.And(lo1 <= x, x < hi1), b1 == b2)), e1 == e2))
            # pointwise lemmas supplied by a contract (each proved as its own obligation at an arbitrary index):
            # instantiated at the extensionality witness
            for pw_fn in (opts.get("pointwise") or []):
                out.append(pw_fn(x))
    if opts.get("zero_body", False) and len(sig_apps) <= 40:
        # a sum whose summand vanishes on the whole range is 0 (Skolemised: the witness x is chosen by the solver)
        for sd, e in sig_apps:
            if not _indicator(sd.body):
                continue      # only counting sums (indicator summands): keeps the instance set small
            lo, hi = e.arg(0), e.arg(1)
            args = [e.arg(i) for i in range(2, e.num_args())]
            x = z3.Int(f"zb!{e.get_id()}")
            zero = z3.IntVal(0) if z3.is_int(e) else RV(0)
            out.append(z3.Implies(z3.Implies(z3.And(lo <= x, x < hi), sd.body_at(x, args) == zero), e == zero))
    if opts.get("ext_tail", False) and len(sig_apps) <= 40:
        # zero tail (split + empty contribution): same lower bound, hi1 <= hi2, bodies agree on [lo, hi1), second body vanishes
        # on [hi1, hi2)  ==>  equal sums   (Skolemised like extensionality; e.g. a row padded with zeros beyond its length)
        for (sd1, e1), (sd2, e2) in itertools.permutations(sig_apps, 2):
            if e1.sort() != e2.sort():
                continue
            lo1, hi1, lo2, hi2 = e1.arg(0), e1.arg(1), e2.arg(0), e2.arg(1)
            if not z3.simplify(lo1 - lo2).eq(z3.IntVal(0)) or z3.simplify(hi1 - hi2).eq(z3.IntVal(0)):
                continue
            if sd1 is not sd2 and not (_indicator(sd1.body) and _indicator(sd2.body)):
                continue      # candidates: the same summand over two ranges, or two counting sums
            x = z3.Int(f"tail!{e1.get_id()}!{e2.get_id()}")
            a1 = [e1.arg(i) for i in range(2, e1.num_args())]
            a2 = [e2.arg(i) for i in range(2, e2.num_args())]
            b1, b2 = sd1.body_at(x, a1), sd2.body_at(x, a2)
            zero = z3.IntVal(0) if z3.is_int(e1) else RV(0)
            out.append(z3.Implies(z3.And(hi1 <= hi2, z3.Implies(z3.And(lo1 <= x, x < hi1), b1 == b2),
                                         z3.Implies(z3.And(hi1 <= x, x < hi2), b2 == zero)), e1 == e2))
    return out


def _indicator(b):
    return z3.is_app(b) and b.decl().kind() == z3.Z3_OP_ITE and all(z3.is_int_value(c) or z3.is_rational_value(c) for c in b.children()[1:])


def saturate(formulas, rounds=2, opts=None):
    """instances for `formulas`, then for the instances themselves, `rounds` times"""
    allf = list(formulas)
    seen = set(f.get_id() for f in allf)
    added = []
    frontier = list(formulas)
    ext_done = set()
    last_new = None
    for r in range(rounds):
        o = dict(opts or {})
        o["_ext_done"] = ext_done
        if o.get("ext_local"):
            o["_ext_groups"] = [list(formulas)] if last_new is None else [[f] for f in last_new]
        if r > 0:
            o["unfold"] = o.get("unfold_deep", False)
            o["unfold_first"] = False
        new = []
        for inst in instances(allf if r == 0 else allf, o):
            if inst.get_id() not in seen:
                seen.add(inst.get_id())
                new.append(inst)
        if not new:
            break
        last_new = new
        added.extend(new)
        allf.extend(new)
    return added
