"""Library contracts (ASSUMED, part of the trusted base): numpy, pandas, math, cmath, builtins.

Each entry gives the mathematical meaning of one external function on the engine's value model.
They are validated against the real libraries by the conformance probe (probe.py) but are assumptions.
"""
from __future__ import annotations

import ast
import itertools
from fractions import Fraction

import z3

from . import arr as A
from . import sv
from .interp import (DROPPED, BoundLib, ClassVal, EnumMember, Frame, FuncVal, LambdaVal, LibFunc, ModVal,
                     PyRaise, Ref, new_dict, new_list)
from .sigma import Sum
from .state import Content, cur
from .sv import SV, Cx, EngineError, is_conc, ite, norm


class DType:
    def __init__(self, name):
        self.name = name

    def __repr__(self):
        return f"dtype({self.name})"


class RangeVal:
    def __init__(self, start, stop, step=1):
        self.start, self.stop, self.step = norm(start), norm(stop), norm(step)

    def concrete(self):
        return is_conc(self.start) and is_conc(self.stop) and is_conc(self.step)

    def length(self):
        if not (is_conc(self.step) and self.step == 1):
            raise EngineError("symbolic range with step")
        return A.simp(sv.sub(self.stop, self.start))

    def item(self, i):
        return A.simp(sv.add(self.start, i))

    def to_range(self):
        return range(int(self.start), int(self.stop), int(self.step))


class SymSet:
    """set built from a symbolic-length sequence; only len(...) == 1 style queries are supported"""
    def __init__(self, seq):
        self.seq = seq


class SeriesVal:
    """pandas Series = 1-D array (+ name)"""
    def __init__(self, arr, name=None):
        self.arr, self.name = arr, name


class NpNewaxis:
    pass


class NpCUnderscore:
    """np.c_[a, b, ...]: column stack of 1-D / 2-D arrays"""


def native(f):
    f._pyvc_native = True
    return f


def _arr(v, interp=None):
    v = norm(v)
    if isinstance(v, A.Arr):
        return v
    if isinstance(v, SeriesVal):
        return v.arr
    if isinstance(v, Ref) and v.kind == "list":
        return A.from_nested(interp.to_py(v) if interp else _to_py(v))
    if isinstance(v, (list, tuple)):
        return A.from_nested(_to_py(v))
    if sv.is_scalar(v):
        return A.from_nested(v)
    if isinstance(v, A.SeqVal):
        return A.from_nested(v)
    if isinstance(v, A.Masked):
        from .relops import masked_to_arr
        return masked_to_arr(v)
    raise EngineError(f"array-like expected, got {type(v).__name__}")


def _to_py(v):
    if isinstance(v, Ref) and v.kind == "list":
        c = v.content
        if isinstance(c, A.SeqVal):
            return c
        return [_to_py(x) for x in c]
    if isinstance(v, (tuple, list)):
        return [_to_py(x) for x in v]
    return v


def _map(f, dtype=None, inexact=False, abs_=False):
    """element-wise function; dtype: class of the result (None: that of the argument); inexact: numpy computes in floating point, so an
    integer / boolean argument gives a float result (complex stays complex); abs_: complex argument -> float result"""
    def g(interp, x, *rest, **kw):
        x = norm(x)
        if isinstance(x, SeriesVal):
            return SeriesVal(g(interp, x.arr), x.name)
        dt = dtype
        if (inexact or abs_) and isinstance(x, (A.Arr, A.Masked, Ref, list, tuple)):
            src = x.dtype if isinstance(x, (A.Arr, A.Masked)) else _arr(x, interp).dtype
            if inexact:
                dt = "complex" if src == "complex" else "float"
            elif src == "complex":
                dt = "float"
        if isinstance(x, A.Masked):
            return A.unop(f, x, dtype=dt)
        if isinstance(x, (A.Arr, Ref, list, tuple)):
            return A.unop(f, _arr(x, interp), dtype=dt)
        if isinstance(x, A.Masked):
            return A.ew(f, x, dtype=dtype)
        return f(x)
    return g


def _real_out(a, f):
    r = A.unop(f, a)
    if isinstance(r, A.Arr):
        r.dtype = "float"
    return r


def _conj(v):
    v = norm(v)
    return v.conjugate() if isinstance(v, Cx) else v


def _re(v):
    v = norm(v)
    return v.re if isinstance(v, Cx) else v


def _im(v):
    v = norm(v)
    return v.im if isinstance(v, Cx) else 0


def _abs(v):
    return sv.absv(v)


def _is_intlike(v):
    v = norm(v)
    return isinstance(v, (bool, int)) or (isinstance(v, SV) and (v.is_int or v.is_bool))


def _float_of(v):
    v = norm(v)
    if isinstance(v, Cx):
        raise PyRaise("TypeError", "float() argument must not be complex")
    return sv.to_real(v)


class Lib:
    def __init__(self, prop=None):
        self.prop = prop        # the property whose units use this table: its own libext module takes precedence
        self.hooks = {}
        self.np = {}
        self.mods = {}
        self.extern = {}
        self._build()

    def activate(self):
        """install this table's engine hooks (registered by the property's own libext module) into their global cells"""
        from . import libext
        libext.set_hooks(self.hooks)

    # ------------------------------------------------------------------ registration
    def _build(self):
        np = self.np
        np["pi"] = sv.PI
        np["inf"] = Fraction(10 ** 30)   # only used as print option / never in arithmetic under contract
        np["newaxis"] = None
        np["sqrt"] = LibFunc("np.sqrt", _map(sv.sqrt, "float"))
        np["exp"] = LibFunc("np.exp", _map(sv.exp, inexact=True))
        np["log"] = LibFunc("np.log", _map(sv.log, "float"))
        np["cos"] = LibFunc("np.cos", _map(sv.cos, "float"))
        np["sin"] = LibFunc("np.sin", _map(sv.sin, "float"))
        np["arccos"] = LibFunc("np.arccos", _map(sv.arccos, "float"))
        np["square"] = LibFunc("np.square", _map(lambda x: sv.mul(x, x)))
        np["conj"] = LibFunc("np.conj", _map(_conj))
        np["real"] = LibFunc("np.real", self.np_real)
        np["abs"] = LibFunc("np.abs", _map(_abs, abs_=True))
        np["absolute"] = np["abs"]
        np["rint"] = LibFunc("np.rint", _map(sv.rint, "float"))
        np["sign"] = LibFunc("np.sign", _map(lambda x: ite(sv.cmp(">", x, 0), 1, lambda: ite(sv.cmp("<", x, 0), -1, 0))))
        np["maximum"] = LibFunc("np.maximum", lambda i, a, b: A.ew(sv.maxv, a if sv.is_scalar(norm(a)) else _arr(a, i), b if sv.is_scalar(norm(b)) else _arr(b, i)))
        np["minimum"] = LibFunc("np.minimum", lambda i, a, b: A.ew(sv.minv, a if sv.is_scalar(norm(a)) else _arr(a, i), b if sv.is_scalar(norm(b)) else _arr(b, i)))
        # numpy >= 2.1: floor / ceil / trunc of integer (and boolean) input keep the integer dtype
        np["floor"] = LibFunc("np.floor", _map(lambda x: x if _is_intlike(x) else sv.to_real(sv.floor(x))))
        np["ceil"] = LibFunc("np.ceil", _map(lambda x: x if _is_intlike(x) else sv.neg(sv.to_real(sv.floor(sv.neg(x))))))
        np["trunc"] = LibFunc("np.trunc", _map(lambda x: x if _is_intlike(x) else sv.to_real(sv.trunc(x))))
        np["round"] = LibFunc("np.round", self.np_round)
        np["around"] = np["round"]
        np["array"] = LibFunc("np.array", self.np_array)
        np["asarray"] = LibFunc("np.asarray", self.np_asarray)
        np["zeros"] = LibFunc("np.zeros", self.np_zeros)
        np["zeros_like"] = LibFunc("np.zeros_like", self.np_zeros_like)
        np["copy"] = LibFunc("np.copy", lambda i, a: A.copy(_arr(a, i)))
        np["dot"] = LibFunc("np.dot", lambda i, a, b: A.dot(_arr(a, i), _arr(b, i)))
        np["matmul"] = LibFunc("np.matmul", lambda i, a, b: A.matmul(_arr(a, i), _arr(b, i)))
        np["trace"] = LibFunc("np.trace", lambda i, a: A.trace(_arr(a, i)))
        np["sum"] = LibFunc("np.sum", lambda i, a, axis=None: A.reduce_sum(self._red_operand(i, a), axis))
        np["prod"] = LibFunc("np.prod", lambda i, a, axis=None: A.reduce_prod(_arr(a, i), axis))
        np["mean"] = LibFunc("np.mean", lambda i, a, axis=None: A.reduce_mean(self._red_operand(i, a), axis))
        np["diff"] = LibFunc("np.diff", self.np_diff)
        np["column_stack"] = LibFunc("np.column_stack", self.np_column_stack)
        np["where"] = LibFunc("np.where", self.np_where)
        np["arange"] = LibFunc("np.arange", self.np_arange)
        np["full"] = LibFunc("np.full", self.np_full)
        # function forms of the array reductions (np.min(a, axis=0) = a.min(axis=0), ...): the same contracts as the methods
        for _nm, _meth in (("min", "min"), ("amin", "min"), ("max", "max"), ("amax", "max"), ("all", "all"), ("any", "any")):
            np.setdefault(_nm, LibFunc("np." + _nm, (lambda i, a, *args, _m=_meth, **kw: self.arr_method(i, _arr(a, i), _m, list(args), kw))))
        np.setdefault("isin", LibFunc("np.isin", self.np_isin))
        np.setdefault("count_nonzero", LibFunc("np.count_nonzero", self.np_count_nonzero))
        np.setdefault("stack", LibFunc("np.stack", self.np_stack))
        np["full_like"] = LibFunc("np.full_like", self.np_full_like)
        np["power"] = LibFunc("np.power", lambda i, a, b: i.binop("**", a, b))
        np["int32"] = DType("int32")
        np["int64"] = DType("int64")
        np["float64"] = DType("float64")
        np["float32"] = DType("float32")
        np["complex128"] = DType("complex128")
        np["bool_"] = DType("bool")
        np["linalg.inv"] = LibFunc("np.linalg.inv", self.np_inv)
        np["linalg.solve"] = LibFunc("np.linalg.solve", lambda i, a, b: A.dot(self.np_inv(i, a), _arr(b, i)))
        np["linalg.det"] = LibFunc("np.linalg.det", lambda i, a: A.det_small(A.to_list(_arr(a, i)), A.conc_dim(_arr(a, i).shape[0])))
        np["linalg.norm"] = LibFunc("np.linalg.norm", lambda i, a, axis=None: A.norm_l2(_arr(a, i), axis))
        self.mods["numpy"] = np
        self.mods["math"] = {
            "pi": sv.PI, "sqrt": LibFunc("math.sqrt", lambda i, x: sv.sqrt(_float_of(x))),
            "cos": LibFunc("math.cos", lambda i, x: sv.cos(x)), "sin": LibFunc("math.sin", lambda i, x: sv.sin(x)),
            "exp": LibFunc("math.exp", lambda i, x: sv.exp(x)), "log": LibFunc("math.log", lambda i, x: sv.log(x)),
            "floor": LibFunc("math.floor", lambda i, x: sv.floor(x)),
        }
        self.mods["cmath"] = {
            "exp": LibFunc("cmath.exp", lambda i, x: sv.exp(sv.as_cx(norm(x)))),
            "pi": sv.PI,
        }
        from . import pandas_model as PM
        self.mods["pandas"] = {"DataFrame": LibFunc("pd.DataFrame", PM.dataframe_ctor), "Series": LibFunc("pd.Series", PM.series_ctor)}
        np["histogram"] = LibFunc("np.histogram", self.np_histogram)
        np["c_"] = NpCUnderscore()
        np["linspace"] = LibFunc("np.linspace", self.np_linspace)
        np["save"] = LibFunc("np.save", lambda i, path, a, **k: cur().trace.append(("np.save", path, A.copy(_arr(a, i)), cur().where)))
        np["savetxt"] = LibFunc("np.savetxt", self.np_savetxt)
        np["hstack"] = LibFunc("np.hstack", self.np_hstack)
        np["ones"] = LibFunc("np.ones", lambda i, shape, dtype=None, **k: self._ones(self.np_zeros(i, shape, dtype)))
        np["ones_like"] = LibFunc("np.ones_like", lambda i, a, dtype=None: self._ones(self.np_zeros_like(i, a, dtype)))
        np["isclose"] = LibFunc("np.isclose", lambda i, a, b, **k: i.compare(ast.Eq(), a, b))   # A1: floats are reals, tolerance collapses to equality
        from . import relops
        np["argsort"] = LibFunc("np.argsort", lambda i, a, **k: relops.argsort(_arr(a, i)))
        np["argpartition"] = LibFunc("np.argpartition", lambda i, a, kth, **k: relops.argpartition(_arr(a, i), kth))
        np["array2string"] = LibFunc("np.array2string", self.np_array2string)
        np["set_printoptions"] = LibFunc("np.set_printoptions", lambda i, **k: cur().trace.append(("np.set_printoptions", dict(k), cur().where)))
        self.mods["re"] = {"sub": LibFunc("re.sub", self.re_sub)}
        # wall-clock time: a fresh unconstrained real per call (only used for log messages in the repository; a result that
        # depended on it could not be proved equal to its specification)
        self.mods["time"] = {"time": LibFunc("time.time", lambda i: sv.fresh_real("clock"))}
        from . import libext
        libext.load_all(self, self.prop)

    @staticmethod
    def _ones(z):
        one = {"float": Fraction(1), "int": 1, "bool": True, "complex": Cx(Fraction(1), Fraction(0))}[z.dtype]
        return A.new_arr(z.shape, lambda idx: one, z.dtype)

    def np_real(self, interp, x):
        """np.real: the argument ITSELF for a non-complex array (no copy); for a complex array numpy returns a view of the real parts
        (modelled as a fresh array through which stores are refused, pyvc.arr._check_storable)"""
        x = norm(x)
        if isinstance(x, A.Arr) and x.dtype != "complex":
            return x
        if isinstance(x, A.Arr):
            return self.arr_attr(interp, x, "real")
        return _map(_re, "float")(interp, x)

    def _red_operand(self, interp, a):
        a = norm(a)
        if isinstance(a, A.Masked):
            return a
        return _arr(a, interp)

    # ------------------------------------------------------------------ numpy functions
    def np_array(self, interp, data, dtype=None, **kw):
        if kw.get("copy", True) is not True:
            raise EngineError("np.array(..., copy=False / None): may return the argument itself")
        dt = A.norm_dtype(dtype.name if isinstance(dtype, DType) else dtype) if dtype is not None else None
        data = norm(data)
        from .text import TokList, toklist_to_array
        if isinstance(data, TokList):
            return toklist_to_array(data, dt or "float")
        if hasattr(data, "pyvc_array"):       # library-model values convertible to arrays (pyvc/libext)
            return data.pyvc_array(interp, dt)
        if isinstance(data, A.Arr):
            return A.copy(data) if dt is None else A.astype(data, dt)
        if isinstance(data, SeriesVal):
            return A.copy(data.arr)
        return A.from_nested(interp.to_py(data), dt)

    def np_asarray(self, interp, data, dtype=None, **kw):
        """np.asarray returns ITS ARGUMENT (no copy) when it already is an array of the requested dtype: stores through the
        result then reach the caller's array.  The engine's dtype classes (float/int/bool/complex) are coarser than numpy's, so
        an equal class is treated as 'no copy' (the aliasing case; value-wise both cases agree)."""
        d0 = norm(data)
        dt = A.norm_dtype(dtype.name if isinstance(dtype, DType) else dtype) if dtype is not None else None
        if isinstance(d0, A.Arr) and (dt is None or dt == d0.dtype):
            return d0
        return self.np_array(interp, data, dtype, **kw)

    def np_zeros(self, interp, shape, dtype=None, **kw):
        shape = norm(shape)
        if isinstance(shape, Ref):
            shape = tuple(interp.iter_concrete(shape))
        dt = "float" if dtype is None else A.norm_dtype(dtype.name if isinstance(dtype, DType) else dtype)
        for d in (shape if isinstance(shape, (tuple, list)) else (shape,)):
            d = norm(d)
            if isinstance(d, A.Arr) and d.shape == ():
                d = norm(d.get(()))
            if isinstance(d, Fraction) or (isinstance(d, SV) and d.is_real):
                raise PyRaise("TypeError", "'float' object cannot be interpreted as an integer (array dimension)")
            if is_conc(d) and d < 0:
                raise PyRaise("ValueError", "negative dimensions are not allowed")
        return A.zeros(shape, dt)

    def np_zeros_like(self, interp, a, dtype=None):
        a = _arr(a, interp)
        return A.zeros(a.shape, a.dtype if dtype is None else A.norm_dtype(dtype.name if isinstance(dtype, DType) else dtype))

    def np_inv(self, interp, a):
        """ASSUMED contract of np.linalg.inv for d x d, d in {1,2,3}: requires det != 0, returns the
        adjugate / det (the unique G with H G = G H = I)."""
        a = _arr(a, interp)
        if a.ndim != 2:
            raise EngineError("inv rank")
        d = A.conc_dim(a.shape[0], "inv dimension")
        A.require_dim_eq(a.shape[0], a.shape[1])
        M = A.to_list(a)
        det = A.det_small(M, d)
        cur().require(sv.cmp("!=", det, 0), "inv-singular")
        if d == 1:
            G = [[sv.div(1, M[0][0])]]
        elif d == 2:
            G = [[sv.div(M[1][1], det), sv.div(sv.neg(M[0][1]), det)],
                 [sv.div(sv.neg(M[1][0]), det), sv.div(M[0][0], det)]]
        elif d == 3:
            def cof(i, j):
                r = [x for x in range(3) if x != i]
                c = [x for x in range(3) if x != j]
                m = sv.sub(sv.mul(M[r[0]][c[0]], M[r[1]][c[1]]), sv.mul(M[r[0]][c[1]], M[r[1]][c[0]]))
                return m if (i + j) % 2 == 0 else sv.neg(m)
            G = [[sv.div(cof(j, i), det) for j in range(3)] for i in range(3)]
        else:
            raise EngineError("inv dimension > 3")
        return A.from_nested(G, "float")

    def np_round(self, interp, a, decimals=0):
        d = int(norm(decimals))
        f = (lambda x: sv.rint(x)) if d == 0 else (lambda x: sv.round_dec(x, d))
        a = norm(a)
        if isinstance(a, (A.Arr, Ref, list, tuple)):
            return A.unop(f, _arr(a, interp))
        return f(a)

    def np_histogram(self, interp, a, bins=10, range=None, weights=None, **kw):
        """ASSUMED contract of np.histogram(a, bins=B, range=(lo, hi), weights=w): equal-width bins on [lo, hi];
        counts[k] = sum_j w_j [e_k <= a_j < e_{k+1}  or  (k == B-1 and a_j == hi)],  e_k = lo + k (hi - lo) / B;
        returns (counts (B,), edges (B+1,)).  a may be a boolean-mask selection (factor [mask_j])."""
        if range is None:
            raise EngineError("np.histogram without range")
        lo, hi = [norm(x) for x in interp.iter_concrete(range)]
        B = norm(bins)
        if isinstance(B, (A.Arr, Ref)):
            raise EngineError("np.histogram with explicit edges")
        a = norm(a)
        if isinstance(a, A.Masked):
            if a.rest != ():
                raise EngineError("histogram of masked nd selection")
            n, src, mask = a.n, (lambda t: a.src((t,))), a.mask
        else:
            a = _arr(a, interp)
            if a.ndim != 1:
                raise EngineError("histogram of nd array")
            r = a.reader()
            n, src, mask = a.shape[0], (lambda t: r((t,))), None
        w = None
        if weights is not None:
            weights = norm(weights)
            if isinstance(weights, A.Masked):
                wm = weights
                A.require_dim_eq(wm.n, n, "histogram-weights")
                w = lambda t: wm.src((t,))
            else:
                wa = _arr(weights, interp)
                A.require_dim_eq(wa.shape[0], n, "histogram-weights")
                wr = wa.reader()
                w = lambda t: wr((t,))
        width = sv.div(sv.sub(hi, lo), B)

        def edge(k):
            return sv.add(lo, sv.mul(k, width))

        def inbin(x, k):
            return sv.or_(sv.and_(sv.cmp("<=", edge(k), x), sv.cmp("<", x, edge(sv.add(k, 1)))),
                          sv.and_(sv.cmp("==", k, sv.sub(B, 1)), sv.cmp("==", x, hi)))

        def cnt(idx):
            k = idx[0]

            def body(t):
                c = inbin(src(t), k)
                if mask is not None:
                    c = sv.and_(mask(t), c)
                wt = norm(w(t)) if w is not None else 1
                if isinstance(wt, sv.Cx):      # complex weights: numpy accumulates real and imaginary parts separately
                    return sv.Cx(ite(c, wt.re, 0), ite(c, wt.im, 0))
                return ite(c, wt, 0)
            return Sum(0, n, body)
        if not is_conc(B):
            cur().require(sv.cmp(">=", B, 1), "histogram-bins>=1")
        dt = "int" if w is None else "float"
        if weights is not None and getattr(weights, "dtype", None) == "complex":
            dt = "complex"
        elif weights is not None and getattr(weights, "dtype", None) == "int":
            dt = "int"          # numpy: integer weights give integer sums
        counts = A.new_arr((B,), cnt, dt)
        edges = A.new_arr((A.simp(sv.add(B, 1)),), lambda idx: edge(idx[0]), "float")
        return (counts, edges)

    def np_linspace(self, interp, a, b, num=50, **kw):
        a, b, n = norm(a), norm(b), norm(num)
        if not is_conc(n):
            cur().require(sv.cmp(">=", n, 2), "linspace-num>=2")
        elif n < 2:
            raise EngineError("linspace with fewer than 2 points")
        step = sv.div(sv.sub(b, a), sv.sub(n, 1))
        return A.new_arr((n,), lambda idx: sv.add(a, sv.mul(idx[0], step)), "float")

    def np_hstack(self, interp, tup):
        parts = [_arr(x, interp) for x in interp.iter_concrete(tup)]
        if all(p.ndim == 1 for p in parts):
            lens = [p.shape[0] for p in parts]
            readers = [p.reader() for p in parts]
            total = 0
            for l in lens:
                total = sv.add(total, l)
            dt = A.promote(*[p.dtype for p in parts])

            def fn(idx):
                x = idx[0]
                off = 0
                out = None
                chain = []
                for l, r in zip(lens, readers):
                    chain.append((off, l, r))
                    off = sv.add(off, l)
                out = (lambda: chain[-1][2]((A.simp(sv.sub(x, chain[-1][0])),)))
                for o, l, r in reversed(chain[:-1]):
                    out = (lambda r=r, o=o, l=l, nxt=out: ite(sv.cmp("<", x, sv.add(o, l)), (lambda: r((A.simp(sv.sub(x, o)),))), nxt))
                return out()
            return A.new_arr((A.simp(total),), fn, dt)
        return self.np_column_stack(interp, tup)

    def np_savetxt(self, interp, path, a, **k):
        """write event; numpy requires one % format per column for a multi-format string (ValueError otherwise)"""
        arr = _arr(a, interp)
        fmt = k.get("fmt")
        if isinstance(fmt, str):
            nfmt = fmt.replace("%%", "").count("%")
            ncol = arr.shape[1] if arr.ndim == 2 else 1
            if nfmt > 1:
                if is_conc(ncol) and nfmt != int(ncol):
                    raise PyRaise("ValueError", f"fmt has wrong number of % formats: {fmt}")
                cur().require(sv.cmp("==", nfmt, ncol), "np.savetxt:one-%-format-per-column")
        cur().trace.append(("np.savetxt", path, A.copy(arr), dict(k), cur().where))

    def np_array2string(self, interp, a, **kw):
        """ASSUMED: np.array2string of a 2-D integer array under threshold=linewidth=inf prints one bracketed row per line"""
        from .text import Rows, Text
        a = _arr(a, interp)
        if a.ndim != 2 or a.dtype not in ("int", "bool"):
            raise EngineError("array2string of a non-integer or non 2-D array")
        opts = [e for e in cur().trace if e[0] == "np.set_printoptions"]
        if not opts:
            raise EngineError("array2string without set_printoptions(threshold=inf, linewidth=inf): output may be truncated/wrapped")
        r = a.reader()
        return Text(["[[", Rows(a.shape[0], a.shape[1], lambda i, c: r((i, c))), "]]"])

    def re_sub(self, interp, pattern, repl, text, **kw):
        from .text import Rows, Text
        if pattern == r"[\[\]]" and repl == " ":
            if isinstance(text, str):
                import re
                return re.sub(pattern, repl, text)
            if isinstance(text, Text):
                import re
                return Text([re.sub(pattern, repl, p) if isinstance(p, str) else p for p in text.pieces])
        raise EngineError("re.sub with an unmodelled pattern")

    def np_diff(self, interp, a):
        a = _arr(a, interp)
        if a.ndim != 1:
            raise EngineError("diff rank")
        r = a.reader()
        n = a.shape[0]
        ln = A.simp(sv.sub(n, 1)) if not is_conc(n) else max(int(n) - 1, 0)
        if not is_conc(n):
            cur().require(sv.cmp(">=", n, 1), "diff-nonempty")
        return A.new_arr((ln,), lambda idx: sv.sub(r((A.simp(sv.add(idx[0], 1)),)), r((idx[0],))), a.dtype)

    def np_column_stack(self, interp, tup):
        cols = [_arr(x, interp) for x in interp.iter_concrete(tup)]
        n = cols[0].shape[0]
        parts = []
        for c in cols:
            A.require_dim_eq(c.shape[0], n, "column_stack")
            if c.ndim == 1:
                parts.append((c.reader(), 1, 1))
            elif c.ndim == 2:
                parts.append((c.reader(), c.shape[1], 2))     # the width may be symbolic
            else:
                raise EngineError("column_stack rank")
        width = 0
        offs = []
        for p in parts:
            offs.append(width)
            width = A.simp(sv.add(width, p[1]))
        dt = A.promote(*[c.dtype for c in cols])

        def fn(idx):
            j = idx[1]
            if is_conc(j) and all(is_conc(o) for o in offs) and all(is_conc(p[1]) for p in parts):
                for (r, w, nd), off in zip(parts, offs):
                    if j < off + w:
                        return A._cast(r((idx[0],) if nd == 1 else (idx[0], j - off)), dt)
                raise EngineError("column index")
            # symbolic column index / widths: select the block by comparison with the offsets (last block as default)
            acc = None
            for (r, w, nd), off in reversed(list(zip(parts, offs))):
                def val(r=r, nd=nd, off=off):
                    return A._cast(r((idx[0],) if nd == 1 else (idx[0], A.simp(sv.sub(j, off)))), dt)
                if acc is None:
                    acc = val
                else:
                    nxt = acc
                    acc = (lambda val=val, nxt=nxt, off=off, w=w: ite(sv.cmp("<", j, A.simp(sv.add(off, w))), val, nxt))
            return acc()
        return A.new_arr((n, width), fn, dt)

    def np_where(self, interp, c, a=None, b=None):
        if a is None:
            raise EngineError("np.where with one argument")
        return A.ew(lambda cc, x, y: ite(cc, x, y), _arr(c, interp), a if sv.is_scalar(norm(a)) else _arr(a, interp),
                    b if sv.is_scalar(norm(b)) else _arr(b, interp))

    def np_arange(self, interp, *args, dtype=None):
        real_args = any(isinstance(norm(x), Fraction) or (isinstance(norm(x), SV) and norm(x).is_real) for x in args)
        as_float = False
        if dtype is not None:
            # np.arange(n, dtype=<integer type>): the integers themselves (A2: machine integers are mathematical integers);
            # np.arange(<integers>, dtype=<float type>): the same integers as reals (A1)
            dn = A.norm_dtype(dtype.name if isinstance(dtype, DType) else dtype)
            if real_args or dn not in ("int", "float"):
                raise EngineError("np.arange with a non-integer argument and a dtype, or a non-numeric dtype")
            as_float = dn == "float"
        step = 1
        if len(args) == 1:
            lo, hi = 0, norm(args[0])
        else:
            lo, hi = norm(args[0]), norm(args[1])
            if len(args) > 2:
                step = norm(args[2])
                if real_args or not (isinstance(step, int) and not isinstance(step, bool) and step in (1, -1)):
                    raise EngineError("np.arange with a step other than +1 / -1")
        # number of elements: hi - lo for step +1, lo - hi for step -1 (numpy gives max(., 0); a negative count is excluded by the
        # side obligation below, so that the closed form is exact)
        diff = sv.sub(hi, lo) if step == 1 else sv.sub(lo, hi)
        # length ceil(diff) (real arguments: step +1 only), never negative (numpy: an empty array when hi <= lo)
        n = A.simp(diff if not real_args else sv.neg(sv.floor(sv.neg(diff))))
        if is_conc(n):
            n = max(int(n), 0)
        else:
            cur().require(sv.cmp(">=", n, 0), "nonneg-dim")
        dt = "float" if (real_args or as_float) else "int"
        if step == 1:
            fn = (lambda idx: A.simp(sv.add(lo, idx[0])))
        else:
            fn = (lambda idx: A.simp(sv.sub(lo, idx[0])))
        if as_float:
            return A.new_arr((n,), lambda idx: sv.to_real(fn(idx)), dt)
        return A.new_arr((n,), fn, dt)

    def np_count_nonzero(self, interp, a, axis=None, **kw):
        """np.count_nonzero(a, axis): the number of elements that are True (boolean arrays) / different from zero = the sum of the
        0/1 indicator along the axis (an integer)"""
        if kw:
            raise EngineError("np.count_nonzero with options")
        a = _arr(a, interp)
        if a.dtype == "complex":
            raise EngineError("np.count_nonzero of a complex array")
        if a.dtype == "bool":
            ind = A.ew(lambda x: ite(x, 1, 0), a, dtype="int")
        else:
            ind = A.ew(lambda x: ite(sv.cmp("!=", x, 0), 1, 0), a, dtype="int")
        return A.reduce_sum(ind, norm(axis) if axis is not None else None)

    def np_isin(self, interp, element, test_elements, **kw):
        """np.isin(a, values) for a finite Python collection of values: elementwise  OR_k a[idx] == values[k]"""
        if kw:
            raise EngineError("np.isin with options")
        a = _arr(element, interp)
        vals = [norm(v) for v in interp.iter_concrete(test_elements)]
        r = a.reader()

        def fn(idx):
            x = r(idx)
            return sv.or_(*[sv.cmp("==", x, v) for v in vals]) if vals else False
        return A.new_arr(tuple(a.shape), fn, "bool")

    def np_stack(self, interp, arrays, axis=0, **kw):
        """np.stack of k arrays of equal shape along a new axis (concrete k): out[.., j, ..] = arrays[j][..]"""
        if kw:
            raise EngineError("np.stack with options")
        arrs = [_arr(x, interp) for x in interp.iter_concrete(arrays)]
        if not arrs:
            raise EngineError("np.stack of nothing")
        nd = arrs[0].ndim
        for b in arrs[1:]:
            if b.ndim != nd:
                raise EngineError("np.stack rank mismatch")
            for x, y in zip(arrs[0].shape, b.shape):
                A.require_dim_eq(x, y, "stack")
        ax = norm(axis)
        if not isinstance(ax, int) or isinstance(ax, bool):
            raise EngineError("np.stack axis")
        if ax < 0:
            ax += nd + 1
        if not 0 <= ax <= nd:
            raise EngineError("np.stack axis out of range")
        readers = [b.reader() for b in arrs]
        dt = A.promote(*[b.dtype for b in arrs])
        shape = tuple(arrs[0].shape[:ax]) + (len(arrs),) + tuple(arrs[0].shape[ax:])

        def fn(idx):
            j = idx[ax]
            rest = tuple(idx[:ax]) + tuple(idx[ax + 1:])
            if is_conc(j):
                return A._cast(readers[int(j)](rest), dt)
            acc = None
            for k in reversed(range(len(readers))):
                if acc is None:
                    acc = (lambda k=k: A._cast(readers[k](rest), dt))
                else:
                    acc = (lambda k=k, nxt=acc: ite(sv.cmp("==", j, k), (lambda: A._cast(readers[k](rest), dt)), nxt))
            return acc()
        return A.new_arr(shape, fn, dt)

    def np_full(self, interp, shape, fill_value, dtype=None, **kw):
        """np.full(shape, v): every element is v (cast to dtype if given)"""
        v = norm(fill_value)
        if isinstance(v, bool) or (isinstance(v, SV) and getattr(v, "is_bool", False)):
            if dtype is not None:
                raise EngineError("np.full with a boolean fill value and a dtype")
            z = self.np_zeros(interp, shape, "bool")
            return A.new_arr(tuple(z.shape), lambda idx: v, "bool")
        z = self.np_zeros(interp, shape, dtype if dtype is not None else ("int" if (isinstance(v, int) or (isinstance(v, SV) and not v.is_real)) else None))
        return A.binop("+", z, fill_value)

    def np_full_like(self, interp, a, fill_value, dtype=None, **kw):
        """np.full_like(a, v): shape and dtype of a, every element v cast to that dtype (an integer array truncates a real v:
        only integer-valued v are modelled for integer arrays)"""
        a = _arr(a, interp)
        z = self.np_zeros_like(interp, a, dtype)
        v = norm(fill_value)
        if z.dtype == "int" and (isinstance(v, Fraction) or (isinstance(v, SV) and v.is_real)):
            raise EngineError("np.full_like of an integer array with a real fill value (truncation)")
        return A.binop("+", z, fill_value)

    # ------------------------------------------------------------------ module / value attribute protocol
    def module_attr(self, interp, mod, name):
        full = mod.name
        if full in ("numpy", "np"):
            full = "numpy"
        if full.startswith("numpy."):
            sub = full[len("numpy."):] + "." + name
            if sub in self.np:
                return self.np[sub]
            return ModVal(full + "." + name)
        table = self.mods.get(full)
        if table is None:
            if full.startswith("PyMatterSim"):
                from .interp import load_module
                m = load_module(full + "." + name)
                if m is not None:
                    return ModVal(full + "." + name)
                m = load_module(full)
                if m is not None:
                    return interp.resolve_from(m, full, name, 0)
            raise PyRaise("unresolved-callee", f"module {full} is not modelled ({name})")
        if name in table:
            return table[name]
        if full == "numpy" and name in ("linalg", "random", "fft"):
            return ModVal("numpy." + name)
        raise PyRaise("unresolved-callee", f"{full}.{name} has no library contract")

    def from_import(self, interp, base, attr):
        if base in self.mods and attr in self.mods[base]:
            return self.mods[base][attr]
        if base in ("typing", "numpy.typing", "dataclasses", "enum", "abc"):
            return LibFunc(f"{base}.{attr}", lambda i, *a, **k: None)
        key = f"{base}.{attr}"
        if key in self.extern:
            return self.extern[key]
        raise PyRaise("unresolved-callee", f"from {base} import {attr}: no library contract")

    def builtin(self, name):
        return BUILTINS.get(name)

    def is_lib_value(self, v):
        return isinstance(v, (SeriesVal,)) or (isinstance(v, Ref) and v.kind == "df")

    def value_binop(self, interp, op, a, b):
        name = None
        if isinstance(a, SeriesVal):
            name = a.name
            a = a.arr
        if isinstance(b, SeriesVal):
            name = name or b.name
            b = b.arr
        if isinstance(a, Ref) or isinstance(b, Ref):
            # DataFrame arithmetic `df op df`, `df op scalar`, `scalar op df` (op in + - * /): element-wise per column; two
            # frames must have the same columns in the same order and the same length (side obligation); the result is a new
            # frame (pandas aligns on labels; both frames carry the default RangeIndex)
            from .pandas_model import df_content, new_df
            da = isinstance(a, Ref) and a.kind == "df"
            db = isinstance(b, Ref) and b.kind == "df"
            if not (da or db) or op not in ("+", "-", "*", "/") or (not da and not sv.is_scalar(norm(a))) or (not db and not sv.is_scalar(norm(b))):
                raise EngineError("DataFrame arithmetic")
            ca = df_content(a) if da else None
            cb = df_content(b) if db else None
            ref = ca or cb
            if da and db:
                if list(ca["order"]) != list(cb["order"]):
                    raise EngineError("DataFrame arithmetic on frames with different columns")
                A.require_dim_eq(ca["n"], cb["n"], "dataframe-arithmetic-equal-length")
            cols = {}
            for cname in ref["order"]:
                x = ca["cols"][cname] if da else a
                y = cb["cols"][cname] if db else b
                cols[cname] = A.binop(op, x, y)
            return new_df(cols, ref["order"], ref["n"])
        r = interp.binop(op, a, b)
        return SeriesVal(r, name) if isinstance(r, A.Arr) else r

    def str_binop(self, interp, op, a, b):
        if op == "+" and isinstance(a, str) and isinstance(b, str):
            return a + b
        if op == "*" and isinstance(a, str) and is_conc(b):
            return a * int(b)
        if op == "%" and isinstance(a, str):
            from .text import percent_format
            return percent_format(interp, a, b)
        from .text import text_binop
        return text_binop(interp, op, a, b)

    def fstring(self, interp, node, frame):
        from .text import fstring
        return fstring(interp, node, frame)

    def dtype_eq(self, a, b):
        na = a.name if isinstance(a, DType) else str(a)
        nb = b.name if isinstance(b, DType) else str(b)
        norm_ = {"bool": "bool", "complex128": "complex", "complex": "complex", "float64": "float", "float": "float",
                 "int64": "int", "int32": "int", "int": "int"}
        return norm_.get(na, na) == norm_.get(nb, nb)

    def value_eq(self, interp, a, b):
        if isinstance(a, DType) or isinstance(b, DType):
            return self.dtype_eq(a, b)
        if isinstance(b, SymSetLen):
            a, b = b, a
        if isinstance(a, SymSetLen) and is_conc(norm(b)) and int(norm(b)) == 1:
            # len(set(seq)) == 1: decided only when the element at a symbolic position does not depend on the position
            # (then the set is {that element} iff the sequence is non-empty)
            seq = a.s.seq
            k = sv.fresh_int("setk")
            e_k, e_0 = seq.fn(k), seq.fn(0)
            same = interp.py_eq(e_k, e_0)
            if same is True or (isinstance(same, SV) and z3.is_true(z3.simplify(sv.zb(same)))):
                return sv.cmp(">=", seq.length, 1)
            raise EngineError("len(set(<symbolic sequence>)) == 1 with position-dependent elements")
        if isinstance(a, ClassVal) and isinstance(b, ClassVal):
            return a.name == b.name
        if isinstance(a, SymSetLen) or isinstance(b, SymSetLen):
            return _symset_len_eq(a, b) if isinstance(a, SymSetLen) else _symset_len_eq(b, a)
        raise EngineError(f"equality of {type(a).__name__} and {type(b).__name__}")

    def value_contains(self, interp, container, item):
        from .text import TokList, toklist_contains
        if isinstance(container, TokList):
            return toklist_contains(interp, container, item)
        raise EngineError(f"'in' on {type(container).__name__}")

    def value_attr(self, interp, obj, name):
        obj = norm(obj)
        if hasattr(obj, "pyvc_getattr"):      # values of library models defined in pyvc/libext (protocol: attribute access)
            return obj.pyvc_getattr(interp, name)
        if isinstance(obj, A.Arr):
            return self.arr_attr(interp, obj, name)
        if isinstance(obj, A.Masked):
            if name in ("sum", "mean"):
                return BoundLib("masked." + name, obj)
            if name == "shape":
                return (obj.count(),) + tuple(obj.rest)
            from .relops import masked_to_arr
            return self.arr_attr(interp, masked_to_arr(obj), name)
        if sv.is_scalar(obj):
            if name == "real":
                return _re(obj)
            if name == "imag":
                return _im(obj)
            if name in ("conjugate", "conj"):
                return BoundLib("scalar.conj", obj)
            if name == "sum":
                return BoundLib("scalar.ident", obj)
            if name in ("evalf",):
                return BoundLib("scalar.ident", obj)
            if name == "dtype":
                return DType(A.scalar_dtype(obj))
            if name == "shape":
                return ()
        from .text import LineVal, Text, TokList
        if isinstance(obj, (str, LineVal, Text)):
            return BoundLib("str." + name, obj)
        if isinstance(obj, TokList):
            return BoundLib("toklist." + name, obj)
        from .text import Tok
        if isinstance(obj, Tok):
            return BoundLib("tok." + name, obj)
        if isinstance(obj, Ref):
            if obj.kind == "list":
                return BoundLib("list." + name, obj)
            if obj.kind == "dict":
                return BoundLib("dict." + name, obj)
            if obj.kind == "df":
                from .pandas_model import df_attr
                return df_attr(interp, obj, name)
            if obj.kind == "file":
                return BoundLib("file." + name, obj)
        if isinstance(obj, SeriesVal):
            from .pandas_model import series_attr
            return series_attr(interp, obj, name)
        from .pandas_model import GroupBy, GroupMean
        if isinstance(obj, (GroupBy, GroupMean)):
            return BoundLib("groupby." + name, obj)
        if isinstance(obj, DType):
            if name == "name":
                return obj.name
        if isinstance(obj, tuple) and name in ("count", "index"):
            return BoundLib("tuple." + name, obj)
        if isinstance(obj, FuncVal) and name == "__name__":
            return obj.node.name
        raise EngineError(f"attribute {name!r} of {type(obj).__name__}")

    def arr_attr(self, interp, a, name):
        if name == "shape":
            return tuple(a.shape)
        if name == "ndim":
            return a.ndim
        if name == "dtype":
            # an input array may carry the numpy name of a reduced-precision dtype (meta "dtype_name", e.g. complex64):
            # same value model, but the name compares unequal to "complex128" / "float64" as in numpy
            return DType(cur().heap[a.sid].meta.get("dtype_name", a.dtype) if a.view is None else a.dtype)
        if name == "T":
            return A.transpose(a)
        if name == "real":
            r = a.reader()
            if a.dtype != "complex":
                return a
            # numpy: a VIEW of the real parts; modelled as a fresh array that refuses stores
            return A.new_arr(a.shape, lambda idx: _re(r(idx)), "float", **({} if A.is_temporary(a) else {"nostore": "<complex array>.real"}))
        if name == "imag":
            r = a.reader()
            if a.dtype != "complex":
                return A.new_arr(a.shape, lambda idx: _im(r(idx)), a.dtype if a.dtype != "bool" else "bool", readonly=True)   # numpy: read-only zeros
            return A.new_arr(a.shape, lambda idx: _im(r(idx)), "float", **({} if A.is_temporary(a) else {"nostore": "<complex array>.imag"}))
        if name == "size":
            return A.count_elems(a)
        return BoundLib("arr." + name, a)

    def value_getitem(self, interp, obj, key):
        if hasattr(obj, "pyvc_getitem"):      # values of library models defined in pyvc/libext (protocol: item access)
            return obj.pyvc_getitem(interp, key)
        if isinstance(obj, SeriesVal):
            r = A.getitem(obj.arr, key)
            return SeriesVal(r, obj.name) if isinstance(r, A.Arr) else r
        if isinstance(obj, Ref) and obj.kind == "df":
            from .pandas_model import df_getitem
            return df_getitem(interp, obj, key)
        if isinstance(obj, RangeVal):
            return obj.item(A._norm_index(key, obj.length()))
        from .text import TokList, toklist_getitem
        if isinstance(obj, TokList):
            return toklist_getitem(interp, obj, key)
        if isinstance(obj, NpCUnderscore):
            return self.np_column_stack(interp, key if isinstance(key, tuple) else (key,))
        if isinstance(obj, BoundLib) and obj.name == "df.loc":
            from .pandas_model import df_loc_getitem
            return df_loc_getitem(interp, obj.recv, key)
        if isinstance(obj, A.Masked):
            return A.getitem(obj, key)
        raise EngineError(f"subscript of {type(obj).__name__}")

    def value_setitem(self, interp, obj, key, value):
        if hasattr(obj, "pyvc_setitem"):      # values of library models defined in pyvc/libext (protocol: item assignment)
            return obj.pyvc_setitem(interp, key, value)
        if isinstance(obj, Ref) and obj.kind == "df":
            from .pandas_model import df_setitem
            return df_setitem(interp, obj, key, value)
        if isinstance(obj, SeriesVal):
            return A.setitem(obj.arr, key, value)
        raise EngineError(f"item assignment on {type(obj).__name__}")

    # ------------------------------------------------------------------ methods
    def call_method(self, interp, bl, args, kwargs):
        name, recv = bl.name, bl.recv
        kind, meth = name.split(".", 1)
        if kind == "arr":
            return self.arr_method(interp, recv, meth, args, kwargs)
        if kind == "masked":
            axis = kwargs.get("axis", args[0] if args else None)
            if meth == "sum":
                return A.reduce_sum(recv, axis)
            if meth == "mean":
                return A.reduce_mean(recv, axis)
        if kind == "scalar":
            if meth == "conj":
                return _conj(recv)
            if meth == "ident":
                return recv
        if kind == "list":
            return self.list_method(interp, recv, meth, args, kwargs)
        if kind == "dict":
            return self.dict_method(interp, recv, meth, args, kwargs)
        if kind == "str":
            from .text import str_method
            return str_method(interp, recv, meth, args, kwargs)
        if kind == "file":
            from .text import file_method
            return file_method(interp, recv, meth, args, kwargs)
        if kind in ("df", "series", "groupby"):
            from .pandas_model import pandas_method
            return pandas_method(interp, kind, recv, meth, args, kwargs)
        if kind == "tok":
            # string predicates of a numeric / unknown token
            if meth == "isnumeric":
                if recv.kind == "int":
                    return sv.cmp(">=", recv.value, 0)           # digits only (a sign is not numeric)
                if recv.kind == "sym" and "isnumeric" in recv.value:
                    return recv.value["isnumeric"]
            raise EngineError(f"str.{meth} on a token of kind {recv.kind}")
        if kind == "tuple":
            if meth == "count":
                return sum(1 for x in recv if interp.decide(interp.py_eq(x, args[0])))
        raise EngineError(f"method {name}")

    def arr_method(self, interp, a, meth, args, kwargs):
        axis = kwargs.get("axis", args[0] if args else None)
        if meth == "sum":
            return A.reduce_sum(a, axis)
        if meth == "mean":
            return A.reduce_mean(a, axis)
        if meth == "min":
            return A.reduce_minmax(a, "min", axis)
        if meth == "max":
            return A.reduce_minmax(a, "max", axis)
        if meth == "prod":
            return A.reduce_prod(a, axis)
        if meth == "copy":
            return A.copy(a)
        if meth == "astype":
            if kwargs.get("copy", True) is not True:
                raise EngineError("astype(copy=False): may return the array itself")
            dt = args[0] if args else kwargs["dtype"]
            return A.astype(a, dt.name if isinstance(dt, DType) else dt)
        if meth in ("conj", "conjugate"):
            if a.dtype != "complex":
                return a             # ndarray.conj() of a non-complex array is the array itself (no copy)
            return A.unop(_conj, a)
        if meth == "tolist":
            def tl(x):
                return new_list([tl(y) for y in x]) if isinstance(x, list) else x
            return tl(A.to_list(a))
        if meth == "reshape":
            return self.reshape(interp, a, args if len(args) != 1 or not isinstance(args[0], (tuple, Ref)) else interp.iter_concrete(args[0]))
        if meth == "ravel":
            return self.reshape(interp, a, (-1,))
        if meth == "flatten":
            return A.copy(self.reshape(interp, a, (-1,)))       # always a copy
        if meth == "trace":
            return A.trace(a)
        if meth == "dot":
            return A.dot(a, _arr(args[0], interp))
        if meth == "any":
            ab = A.astype(a, "bool") if a.dtype != "bool" else a
            tot = A.reduce_sum(ab, axis)
            if isinstance(tot, A.Arr):
                return A.binop(">", tot, 0)
            res = sv.cmp(">", tot, 0)
            if axis is None and isinstance(res, SV) and not all(A.dim_conc(d) for d in a.shape):
                # sound instance of "a sum of 0/1 terms is at least any one of them" at the first element:
                # (every dim >= 1 and a[0,..,0] is true)  =>  count > 0
                first = ab.get(tuple(0 for _ in a.shape))
                cur().assume(sv.implies(sv.and_(first, *[sv.cmp(">=", d, 1) for d in a.shape]), res))
            return res
        if meth == "all":
            nb = A.unop(sv.not_, A.astype(a, "bool") if a.dtype != "bool" else a, dtype="bool")
            r = A.reduce_sum(nb, axis)
            return A.binop("==", r, 0) if isinstance(r, A.Arr) else sv.cmp("==", r, 0)
        if meth == "item":
            return a.get(tuple(0 for _ in a.shape))
        if meth == "argsort":
            from .relops import argsort
            return argsort(a)
        raise EngineError(f"ndarray.{meth}")

    def reshape(self, interp, a, newshape):
        """row-major reshape: the array itself for an unchanged shape; otherwise a fresh array that REFUSES stores (numpy returns a view
        of a contiguous argument, so a store through the result would have to reach the argument)"""
        newshape = [norm(x) for x in newshape]
        old = a.shape
        total = A.count_elems(a)
        if any(is_conc(d) and d == -1 for d in newshape):
            known = 1
            for d in newshape:
                if not (is_conc(d) and d == -1):
                    known = sv.mul(known, d)
            if is_conc(total) and is_conc(known):
                missing = int(total) // int(known)
            elif is_conc(known) and known == 1:
                missing = total
            else:
                # symbolic sizes: the missing dimension is the concrete q with total == q * known (syntactically), if any
                missing = None
                for q in range(1, 33):
                    if A.dim_eq_syntactic(total, sv.mul(q, known)):
                        missing = q
                        break
                if missing is None:
                    raise EngineError("reshape -1 with symbolic sizes")
            newshape = [missing if (is_conc(d) and d == -1) else d for d in newshape]
        newtotal = 1
        for d in newshape:
            newtotal = sv.mul(newtotal, d)
        A.require_dim_eq(total, newtotal, "reshape-size")
        r = a.reader()
        # only the cases needed: trailing dims concrete on both sides, at most one symbolic leading dim
        def strides(shape):
            s, acc = [], 1
            for d in reversed(shape):
                s.append(acc)
                acc = sv.mul(acc, d)
            return list(reversed(s))
        if len(old) == len(newshape) and all(A.dim_eq_syntactic(x, y) for x, y in zip(old, newshape)):
            return a if a.view is None else A.getitem(a, Ellipsis)      # same shape: numpy returns a view of the same elements (alias)
        so, sn = strides(old), strides(newshape)
        if not all(is_conc(d) for d in old[1:]) or not all(is_conc(d) for d in newshape[1:]):
            raise EngineError("reshape with symbolic trailing dims")

        def fn(idx):
            flat = 0
            for i, s in zip(idx, sn):
                flat = sv.add(flat, sv.mul(i, s))
            out = []
            rem = flat
            for k, s in enumerate(so):
                if k == len(so) - 1:
                    out.append(A.simp(rem))
                else:
                    q = sv.floordiv(rem, s) if not (is_conc(s) and s == 1) else rem
                    out.append(A.simp(q))
                    rem = sv.sub(rem, sv.mul(q, s))
            return r(tuple(out))
        # numpy returns a VIEW when the argument is contiguous (a copy otherwise): the model allocates a fresh array and refuses
        # stores through it (pyvc.arr._check_storable) instead of performing them on a copy the argument never sees
        # (a temporary argument — an expression result nothing else refers to — cannot be observed: plain fresh array)
        return A.new_arr(tuple(newshape), fn, a.dtype, **({} if A.is_temporary(a) else {"nostore": "reshape / ravel"}))

    def list_method(self, interp, ref, meth, args, kwargs):
        c = ref.content
        if meth == "append":
            A.mark_named(args[0])
            if isinstance(c, A.SeqVal) and not sv.is_scalar(norm(args[0])) and not isinstance(args[0], A.Arr):
                # an object / tuple appended to a symbolic-length list (arrays: element-wise merge below)
                from .loops import AppendedSeq
                ref.set_content(AppendedSeq(c.fn, c.length, args[0]))
                return None
            if isinstance(c, A.SeqVal):
                n, fn = c.length, c.fn
                v = args[0]
                if isinstance(v, A.Arr):
                    # array element appended to a symbolic-length list: at a symbolic position the element is the
                    # index-wise merge ite(i == n, v, previous element i)
                    vr, vshape, vdt = v.reader(), tuple(v.shape), v.dtype

                    def elem(i, n=n, fn=fn, v=v, vr=vr, vshape=vshape, vdt=vdt):
                        c = sv.cmp("==", i, n)
                        if is_conc(c):
                            return v if c else fn(i)
                        old = fn(i)
                        if not isinstance(old, A.Arr) or len(old.shape) != len(vshape):
                            raise EngineError("list of arrays of different rank")
                        orr = old.reader()
                        shape = tuple(a if A.dim_eq_syntactic(a, b) else ite(c, a, b) for a, b in zip(vshape, old.shape))
                        return A.new_arr(shape, lambda idx: ite(c, lambda: vr(idx), lambda: orr(idx)), vdt)
                    ref.set_content(A.SeqVal(A.simp(sv.add(n, 1)), elem))
                    return None
                ref.set_content(A.SeqVal(A.simp(sv.add(n, 1)), lambda i, n=n, fn=fn, v=v: ite(sv.cmp("==", i, n), v, lambda: fn(i)) if sv.is_scalar(v) else (v if A.dim_eq_syntactic(i, n) else fn(i))))
                return None
            ref.set_content(tuple(c) + (args[0],))
            return None
        if isinstance(c, A.SeqVal):
            raise EngineError(f"list.{meth} on a symbolic-length list")
        if meth == "extend":
            ref.set_content(tuple(c) + tuple(interp.iter_concrete(args[0])))
            return None
        if meth == "index":
            for k, x in enumerate(c):
                if interp.decide(interp.py_eq(x, args[0])):
                    return k
            raise PyRaise("ValueError", "not in list")
        if meth == "copy":
            return new_list(c)
        if meth == "pop":
            items = list(c)
            v = items.pop(*[interp.conc_int(a) for a in args])
            ref.set_content(tuple(items))
            return v
        if meth == "sort":
            if all(is_conc(x) for x in c):
                ref.set_content(tuple(sorted(c)))
                return None
        if meth == "insert":
            items = list(c)
            items.insert(interp.conc_int(args[0]), args[1])
            ref.set_content(tuple(items))
            return None
        raise EngineError(f"list.{meth}")

    def dict_method(self, interp, ref, meth, args, kwargs):
        d = ref.content
        if meth in ("keys", "values", "items"):
            from .interp import dict_order_observed
            dict_order_observed(ref, f"dict.{meth}()")
        if meth == "keys":
            return new_list(list(d.keys()))
        if meth == "values":
            return new_list(list(d.values()))
        if meth == "items":
            return new_list([(k, v) for k, v in d.items()])
        if meth == "get":
            k = interp.dict_key(args[0])
            return d.get(k, args[1] if len(args) > 1 else None)
        if meth == "update":
            nd = dict(d)
            nd.update(args[0].content)
            ref.set_content(nd)
            return None
        raise EngineError(f"dict.{meth}")


def lib_setattr(interp, obj, name, value):
    if hasattr(obj, "pyvc_setattr"):          # values of library models defined in pyvc/libext (protocol: attribute assignment)
        return obj.pyvc_setattr(interp, name, value)
    raise EngineError(f"attribute assignment on {type(obj).__name__}")


def lib_iter(interp, v):
    if isinstance(v, RangeVal):
        if v.concrete():
            return list(v.to_range())
        raise EngineError("iteration over symbolic range outside a loop")
    if isinstance(v, SeriesVal):
        return interp.iter_concrete(v.arr)
    if isinstance(v, _Enumerate):
        return [(v.start + k, x) for k, x in enumerate(interp.iter_concrete(v.it))]
    if isinstance(v, _Zip):
        return list(zip(*[interp.iter_concrete(x) for x in v.its]))
    from .text import TokList
    if isinstance(v, TokList):
        return v.items()
    raise EngineError(f"iteration over {type(v).__name__}")


class _Enumerate:
    def __init__(self, it, start=0):
        self.it, self.start = it, start


class _Zip:
    def __init__(self, its):
        self.its = its


# ----------------------------------------------------------------------------------------------
# builtins


def _b_range(interp, *args):
    args = [norm(a) for a in args]
    for a in args:
        if isinstance(a, Fraction) or (isinstance(a, SV) and a.is_real):
            raise PyRaise("TypeError", "'float' object cannot be interpreted as an integer")
    if len(args) == 1:
        return RangeVal(0, args[0])
    if len(args) == 2:
        return RangeVal(args[0], args[1])
    return RangeVal(*args)


def _b_len(interp, v):
    v = norm(v)
    if isinstance(v, A.Arr):
        if not v.shape:
            raise PyRaise("TypeError", "len() of unsized object")
        return v.shape[0]
    if isinstance(v, A.Masked):
        return v.count()
    if isinstance(v, Ref):
        c = v.content
        if v.kind == "list":
            return c.length if isinstance(c, A.SeqVal) else len(c)
        if v.kind == "dict":
            return len(c)
        if v.kind == "df":
            return c["n"]
    if isinstance(v, (tuple, list, str, frozenset, set)):
        return len(v)
    if isinstance(v, RangeVal):
        return v.length() if not v.concrete() else len(v.to_range())
    if isinstance(v, SymSet):
        return SymSetLen(v)
    from .text import TokList
    if isinstance(v, TokList):
        return v.n
    if isinstance(v, SeriesVal):
        return v.arr.shape[0]
    raise EngineError(f"len of {type(v).__name__}")


class SymSetLen:
    """len(set(symbolic sequence)); only comparison with 1 is given a meaning (all elements equal)"""
    def __init__(self, s):
        self.s = s


def _symset_len_eq(sl, k):
    """len({e(s) for s in <symbolic sequence>}) == 1 when the element does not depend on the position: true iff the sequence is
    non-empty.  (Elements that do depend on the position are outside the model.)"""
    k = norm(k)
    if not (is_conc(k) and int(k) == 1):
        raise EngineError("len(set(symbolic sequence)) compared with a value other than 1")
    seq = sl.s.seq
    e1, e2 = seq.fn(sv.fresh_int("sa")), seq.fn(sv.fresh_int("sb"))

    def same(x, y):
        x, y = norm(x), norm(y)
        if isinstance(x, tuple) and isinstance(y, tuple):
            return len(x) == len(y) and all(same(p, q) for p, q in zip(x, y))
        if isinstance(x, SV) and isinstance(y, SV):
            return x.t.eq(y.t)
        if is_conc(x) and is_conc(y):
            return x == y
        return False
    if not same(e1, e2):
        raise EngineError("len(set(...)) == 1 over a symbolic sequence whose elements depend on the position")
    return sv.cmp(">=", seq.length, 1)


def _b_int(interp, v=0, *a):
    v = norm(v)
    if isinstance(v, A.Arr):
        if v.shape == ():
            v = v.get(())
        else:
            # numpy >= 2.5: TypeError "only 0-dimensional arrays can be converted to Python scalars" (also for one element)
            raise PyRaise("TypeError", "only 0-dimensional arrays can be converted to Python scalars")
    if isinstance(v, str):
        from .text import int_of
        return int_of(v)
    from .text import LineVal, Tok
    if isinstance(v, (Tok, LineVal)):
        from .text import int_of
        return int_of(v)
    if isinstance(v, Cx):
        raise PyRaise("TypeError", "int() argument must not be complex")
    if isinstance(v, SV) and v.is_bool:
        return sv.wrap(sv.znum(v))
    return sv.trunc(v)


def _b_float(interp, v=0):
    v = norm(v)
    if isinstance(v, A.Arr) and v.shape == ():
        v = v.get(())
    from .text import LineVal, Tok, float_of
    if isinstance(v, (str, Tok, LineVal)):
        return float_of(v)
    return _float_of(v)


def _b_abs(interp, v):
    v = norm(v)
    if isinstance(v, A.Arr):
        return A.unop(_abs, v, dtype="float" if v.dtype == "complex" else None)
    return sv.absv(v)


def _b_minmax(which):
    def f(interp, *args, **kw):
        if len(args) == 1:
            a = norm(args[0])
            if isinstance(a, A.Arr):
                return A.reduce_minmax(a, which)
            items = interp.iter_concrete(a)
        else:
            items = list(args)
        if not items:
            raise PyRaise("ValueError", f"{which}() arg is an empty sequence")
        acc = norm(items[0])
        for x in items[1:]:
            acc = sv.minv(acc, norm(x)) if which == "min" else sv.maxv(acc, norm(x))
        return acc
    return f


def _b_sum(interp, it, start=0):
    it = norm(it)
    if isinstance(it, A.Arr):
        n = it.shape[0]
        if not A.dim_conc(n):
            return A.reduce_sum(it, 0)
    sym = interp.symbolic_iter(it)
    if sym is not None:
        n, item = sym
        return sv.add(start, Sum(0, n, item))
    acc = start
    for x in interp.iter_concrete(it):
        acc = interp.binop("+", acc, x)
    return acc


def _b_set(interp, it=()):
    it = norm(it)
    if isinstance(it, A.Arr) and it.shape and not A.dim_conc(it.shape[0]):
        r = it.reader()
        if it.ndim != 1:
            raise EngineError("set of nd array")
        return SymSet(A.SeqVal(it.shape[0], lambda i: r((i,))))
    if isinstance(it, Ref) and it.kind == "list" and isinstance(it.content, A.SeqVal):
        return SymSet(it.content)
    items = interp.iter_concrete(it)
    if any(sv.is_symbolic(norm(x)) for x in items):
        return SymSet(A.SeqVal(len(items), lambda i, items=items: A._pick([norm(x) for x in items], i)))
    return frozenset(interp.hashable(x) for x in items)


def _b_tuple(interp, it=()):
    it = norm(it)
    if isinstance(it, A.Arr) and it.shape and not A.dim_conc(it.shape[0]):
        raise EngineError("tuple of symbolic-length array")
    return tuple(interp.iter_concrete(it))


def _b_list(interp, it=()):
    it = norm(it)
    if isinstance(it, RangeVal) and not it.concrete():
        return Ref(cur().alloc(Content("list", A.SeqVal(it.length(), it.item))), "list")
    return new_list(interp.iter_concrete(it))


def _b_isinstance(interp, v, cls):
    names = []
    for c in (cls if isinstance(cls, tuple) else (cls,)):
        if isinstance(c, ClassVal):
            names.append(c.name)
        elif isinstance(c, LibFunc):
            names.append(c.name)
        else:
            names.append(str(c))
    v = norm(v)
    for n in names:
        if isinstance(v, Ref) and v.kind == "obj" and v.cls and v.cls.name == n:
            return True
        if n == "bool" and (isinstance(v, bool) or (isinstance(v, SV) and v.is_bool)):
            return True
        if n == "int" and (isinstance(v, int) or (isinstance(v, SV) and (v.is_int or v.is_bool))):
            return True      # bool is a subclass of int
        if n == "float" and (isinstance(v, Fraction) or (isinstance(v, SV) and v.is_real)):
            return True
        if n == "str" and isinstance(v, str):
            return True
        if n == "list" and isinstance(v, Ref) and v.kind == "list":
            return True
        if n == "dict" and isinstance(v, Ref) and v.kind == "dict":
            return True
        if n == "tuple" and isinstance(v, tuple):
            return True
        if n in ("np.ndarray", "ndarray") and isinstance(v, A.Arr):
            return True
    return False


def _b_str(interp, v=""):
    from .text import to_str
    return to_str(interp, v)


def _b_round(interp, v, nd=None):
    v = norm(v)
    if nd is None:
        return sv.rint_int(v)
    return sv.round_dec(v, int(nd))


def _b_enumerate(interp, it, start=0):
    return _Enumerate(it, start)


def _b_zip(interp, *its):
    return _Zip(its)


def _b_open(interp, path, mode="r", *a, **k):
    from .text import open_file
    return open_file(interp, path, mode)


def _b_next(interp, it, *default):
    raise EngineError("next()")


def _b_print(interp, *a, **k):
    return None


def _b_bool(interp, v=False):
    v = norm(v)
    if isinstance(v, SV):
        return v if v.is_bool else sv.cmp("!=", v, 0)
    return interp.decide(v)


def _b_sorted(interp, it, **kw):
    items = interp.iter_concrete(it)
    if kw:
        raise EngineError("sorted with key")
    if all(is_conc(norm(x)) or isinstance(x, str) for x in items):
        return new_list(sorted(items))
    raise EngineError("sorted of symbolic values")


def _b_map(interp, f, it):
    it = norm(it)
    if isinstance(f, LibFunc) and f.name == "str" and isinstance(it, A.Arr) and it.ndim == 1:
        from .text import MapStr
        return MapStr(it)
    return new_list([interp.call(f, [x], {}) for x in interp.iter_concrete(it)])


BUILTINS = {
    "range": LibFunc("range", _b_range), "len": LibFunc("len", _b_len), "int": LibFunc("int", _b_int),
    "float": LibFunc("float", _b_float), "abs": LibFunc("abs", _b_abs), "min": LibFunc("min", _b_minmax("min")),
    "max": LibFunc("max", _b_minmax("max")), "sum": LibFunc("sum", _b_sum), "set": LibFunc("set", _b_set),
    "tuple": LibFunc("tuple", _b_tuple), "list": LibFunc("list", _b_list), "isinstance": LibFunc("isinstance", _b_isinstance),
    "str": LibFunc("str", _b_str), "round": LibFunc("round", _b_round), "enumerate": LibFunc("enumerate", _b_enumerate),
    "zip": LibFunc("zip", _b_zip), "open": LibFunc("open", _b_open), "print": LibFunc("print", _b_print),
    "bool": LibFunc("bool", _b_bool), "sorted": LibFunc("sorted", _b_sorted), "map": LibFunc("map", _b_map),
    "True": True, "False": False, "None": None,
    "ValueError": "ValueError", "TypeError": "TypeError", "IndexError": "IndexError", "KeyError": "KeyError",
    "Exception": "Exception", "ImportError": "ImportError", "ModuleNotFoundError": "ModuleNotFoundError",
    "FileNotFoundError": "FileNotFoundError", "NotImplementedError": "NotImplementedError",
    "AssertionError": "AssertionError", "ZeroDivisionError": "ZeroDivisionError", "RuntimeError": "RuntimeError",
}
