"""pyvc.purity — write-set / alias pass over the ASTs of a whole package (DESIGN I.4, property C18).

Every top-level function and every method of the package is enumerated from the source text on disk at check time
(nothing is cached, nothing is imported) and abstractly interpreted in an alias abstraction:

  value  = (roots, kind, cls)
           roots : set of input storages the value MAY share memory with
                     p:<param>            a parameter of the function (its default-argument object included)
                     c:<param>            a constructor argument kept by the object (`self.x = param` in any method)
                     g:<module>.<name>    a module-level mutable object
           kind  : 'scalar' (immutable number/str/None: never has roots), 'arr' (certainly an ndarray),
                   'seq' (array or list: certainly not a scalar), 'unk'
           cls   : repo class of the object when it was built by a visible constructor call

  views keep the roots   : plain assignment, attribute reads (snapshot.positions, self.x, .T, .real, .values), basic slicing,
                           integer element of a container, reshape/ravel/transpose/squeeze/view, np.asarray & friends,
                           list()/tuple()/zip()/enumerate() (same elements), returns of repo functions that may return
                           (a view of) an argument, containers that had an aliasing value stored/appended into them
  fresh allocations drop : arithmetic, comparisons, np.array/np.copy/.copy()/.astype(), allocators, reductions, every other
                           numpy function, fancy / boolean indexing of an ndarray
  stores                 : a[...] = v, a[...] op= v, a op= v (a not a scalar), x.attr = v, in-place methods (.sort() .fill()
                           .append() .update() ..., inplace=True), out=, in-place numpy functions (np.put, np.fill_diagonal,
                           np.copyto, np.place, np.putmask, ufunc.at, np.random.shuffle), and calls of repo functions
                           whose summary says they write a parameter

Branches are joined, loops iterated to a fixed point, break/continue/return handled, assignments inside `try` are weak.
Summaries (parameters written, parameters the result may alias, kind of the result, roots kept per `self` attribute) are
iterated to a global fixed point over the call graph.  The pass is a MAY analysis: an empty input write-set is a proof
(under the trusted library table below) that the function stores into no input; a non-empty one is a *potential* store
that the contract confirms or dismisses by a byte-comparison replay of the real function.

Also computed per function: module-level state used (global statements, reads/writes of module-level mutable objects that
something writes, process-global library setters), `self` attributes read that a non-constructor method assigns,
calls of non-deterministic library functions whose value reaches anything but a logger call, and the output-file writes
(`to_csv`, `np.save`, `np.savetxt`) with the relation of the written expression to the returned one.
"""
from __future__ import annotations

import ast
import os
import re

PKG = "PyMatterSim"
SUBPACKAGES = ("static", "dynamic", "neighbors", "utils", "reader", "writer")

# ------------------------------------------------------------------------------------------------------------
# trusted library table

NP_VIEW = {  # numpy functions whose result may share memory with their (first) argument(s)
    "asarray", "asanyarray", "ascontiguousarray", "asfortranarray", "asarray_chkfinite", "reshape", "ravel", "squeeze",
    "transpose", "swapaxes", "moveaxis", "rollaxis", "atleast_1d", "atleast_2d", "atleast_3d", "expand_dims", "real",
    "imag", "broadcast_to", "broadcast_arrays", "diagonal", "diag", "split", "array_split", "hsplit", "vsplit", "dsplit",
    "require", "flip", "fliplr", "flipud", "rot90", "matrix", "asmatrix", "mat", "frombuffer", "nditer", "ndenumerate",
    "lib.stride_tricks.as_strided", "lib.stride_tricks.sliding_window_view", "permute_dims", "matrix_transpose",
    "trim_zeros", "unstack", "meshgrid", "ix_",
}
NP_VIEW_IF_NOCOPY = {"array", "nan_to_num", "astype"}          # views only with copy=False
NP_INPLACE = {  # numpy functions that write their first argument
    "put", "place", "putmask", "fill_diagonal", "copyto", "put_along_axis", "random.shuffle", "ndarray.sort",
    "ndarray.fill", "ndarray.partition", "ndarray.resize", "ndarray.put", "ndarray.itemset",
}
NP_ALLOC = {  # certainly return a new ndarray
    "array", "zeros", "ones", "empty", "full", "zeros_like", "ones_like", "empty_like", "full_like", "arange", "linspace",
    "logspace", "geomspace", "eye", "identity", "copy", "hstack", "vstack", "dstack", "stack", "concatenate", "column_stack",
    "row_stack", "append", "insert", "delete", "tile", "repeat", "unique", "argsort", "sort", "argpartition", "partition",
    "nonzero", "flatnonzero", "argwhere", "cumsum", "cumprod", "diff", "outer", "cross", "kron", "histogram", "bincount",
    "digitize", "loadtxt", "genfromtxt", "load", "fromfile", "indices", "mgrid", "ogrid", "tril", "triu", "roll", "pad",
    "fft.fft", "fft.ifft", "fft.fftn", "fft.ifftn", "fft.fftfreq", "linalg.inv", "linalg.eigvals", "linalg.eigvalsh",
    "linalg.solve", "linalg.pinv", "matmul", "searchsorted", "isin", "in1d", "setdiff1d", "union1d", "intersect1d",
    "random.rand", "random.randn", "random.random", "random.permutation", "random.choice", "random.normal",
    "random.uniform", "random.randint", "take", "compress", "choose", "select", "einsum", "tensordot", "gradient",
    "trapz", "convolve", "correlate", "interp", "polyfit", "frompyfunc", "vectorize", "fromiter", "asarray_copy",
}
NP_SCALAR = {"isscalar", "ndim", "size", "shape", "pi", "inf", "nan", "newaxis", "e", "euler_gamma", "issubdtype", "iscomplexobj",
             "isrealobj", "array_equal", "allclose", "array2string", "array_repr", "array_str", "dtype", "finfo", "iinfo",
             "result_type", "can_cast", "count_nonzero", "save", "savetxt", "savez", "set_printoptions", "seterr"}

VIEW_METHODS = {"reshape", "ravel", "view", "squeeze", "transpose", "swapaxes", "diagonal", "get", "items", "values", "keys",
                "to_numpy", "__getitem__", "get_group", "setdefault", "newbyteorder", "getfield", "iterrows", "itertuples",
                "__iter__", "pop", "popitem", "to_records", "__array__"}
INPLACE_METHODS = {"sort", "fill", "resize", "put", "itemset", "partition", "setfield", "setflags", "byteswap", "append", "extend",
                   "insert", "pop", "remove", "clear", "reverse", "update", "setdefault", "popitem", "add", "discard",
                   "difference_update", "intersection_update", "symmetric_difference_update", "__setitem__", "__iadd__",
                   "__delitem__", "appendleft", "extendleft", "popleft", "rotate"}
CONTAINER_ADD = {"append", "extend", "insert", "add", "update", "setdefault", "appendleft", "extendleft", "__setitem__"}
REDUCING_METHODS = {"sum", "mean", "min", "max", "prod", "std", "var", "argmin", "argmax", "any", "all", "item", "trace", "dot",
                    "ptp", "nonzero", "tolist", "tobytes", "tostring", "dump", "dumps", "tofile"}
# file-like / text / logging methods that share names with container mutators but act on non-input objects are still
# treated as mutators when the receiver has input roots (over-approximation; dismissed by replay).

SCALAR_ATTRS = {"shape", "ndim", "size", "dtype", "itemsize", "nbytes", "strides", "flags", "name", "columns", "index"}
VIEW_ATTRS = {"T", "mT", "real", "imag", "flat", "values", "base", "loc", "iloc", "at", "iat", "array", "data", "A", "A1", "H",
              "__dict__"}

SCALAR_BUILTINS = {"len", "int", "float", "str", "bool", "complex", "round", "isinstance", "issubclass", "hasattr", "callable",
                   "ord", "chr", "repr", "format", "hash", "id", "type", "divmod", "pow", "bin", "hex", "oct", "input", "print",
                   "range", "open", "abs"}
ELEMENT_BUILTINS = {"list", "tuple", "dict", "set", "frozenset", "sorted", "reversed", "zip", "enumerate", "map", "filter", "iter",
                    "next", "getattr", "vars", "min", "max", "sum", "any", "all", "slice", "super", "object", "memoryview",
                    "bytearray", "bytes"}

GLOBAL_STATE_SETTERS = {  # process-global library state (observations: they are not analysis state of the package)
    "np.set_printoptions", "np.seterr", "np.seterrcall", "np.setbufsize", "np.random.seed", "np.random.set_state", "random.seed",
    "warnings.filterwarnings", "warnings.simplefilter", "os.chdir", "os.putenv", "os.umask", "sys.setrecursionlimit",
    "locale.setlocale", "pd.set_option", "pd.reset_option", "logging.basicConfig", "logging.disable", "plt.rc", "plt.rcdefaults",
    "matplotlib.use", "matplotlib.rc", "sys.path.append", "sys.path.insert",
}
NONDET_PREFIXES = ("random.", "np.random.", "secrets.", "uuid.")
NONDET_CALLS = {"time.time", "time.time_ns", "time.perf_counter", "time.perf_counter_ns", "time.monotonic", "time.monotonic_ns",
                "time.process_time", "time.clock", "time.ctime", "time.localtime", "time.gmtime", "time.strftime",
                "datetime.datetime.now", "datetime.datetime.today", "datetime.datetime.utcnow", "datetime.date.today",
                "datetime.now", "datetime.today", "datetime.utcnow", "date.today", "os.urandom", "os.getpid", "os.times",
                "id", "hash", "os.getrandom", "tempfile.mktemp", "tempfile.mkdtemp", "tempfile.mkstemp", "os.listdir", "glob.glob"}
DET_RANDOM = {"np.random.seed", "random.seed", "np.random.set_state", "np.random.get_state", "random.getstate", "random.setstate"}
FILE_WRITERS = {"to_csv": 0, "to_pickle": 0, "to_json": 0, "to_excel": 0}           # method: the receiver is the value
NP_FILE_WRITERS = {"np.save": 1, "np.savetxt": 1, "np.savez": 1, "np.savez_compressed": 1}   # index of the value argument

_SCALAR_ANN = re.compile(r"^(Optional\[)?(int|float|str|bool|complex|None|bytes|np\.int\d*|np\.float\d*)(\])?$")
_ARR_ANN = re.compile(r"(NDArray|ndarray)")


class AV:
    """abstract value"""
    __slots__ = ("roots", "kind", "cls", "parts", "inner", "ecls")

    def __init__(self, roots=frozenset(), kind="unk", cls=None, parts=None, inner=frozenset(), ecls=None):
        self.ecls = ecls            # repo class of every element of a locally built container ("?empty": no element yet)
        # roots: input storages the object ITSELF may be (a view of); inner: input storages reachable through its
        # elements / fields (a locally built list of input arrays has roots = {} and inner = {p:...}).  ndarrays hold values.
        self.roots = frozenset(roots) if kind != "scalar" else frozenset()
        self.inner = frozenset(inner) if kind not in ("scalar", "arr") else frozenset()
        self.kind, self.cls = kind, cls
        self.parts = parts          # tuple of AVs for tuple-valued results (element-wise unpacking)

    @property
    def reach(self):
        return self.roots | self.inner

    def __repr__(self):
        return f"AV({sorted(self.roots)}|{sorted(self.inner)},{self.kind}{',' + self.cls if self.cls else ''})"

    def key(self):
        return (self.roots, self.inner, self.kind, self.cls, self.ecls, tuple(p.key() for p in self.parts) if self.parts else None)


FRESH = AV()
SCALAR = AV(kind="scalar")
ARR = AV(kind="arr")


def join(a, b):
    if a is None:
        return b
    if b is None:
        return a
    parts = None
    if a.parts and b.parts and len(a.parts) == len(b.parts):
        parts = tuple(join(x, y) for x, y in zip(a.parts, b.parts))
    return AV(a.roots | b.roots, a.kind if a.kind == b.kind else ("seq" if {a.kind, b.kind} <= {"arr", "seq"} else "unk"),
              a.cls if a.cls == b.cls else None, parts, a.inner | b.inner,
              a.ecls if a.ecls == b.ecls else (b.ecls if a.ecls == "?empty" else (a.ecls if b.ecls == "?empty" else None)))


def join_env(e1, e2):
    if e1 is None:
        return e2
    if e2 is None:
        return e1
    out = {}
    for k in set(e1) | set(e2):
        if k in e1 and k in e2:
            out[k] = join(e1[k], e2[k])
        else:
            v = e1.get(k) or e2.get(k)
            # possibly unbound on one side: the bound value
            out[k] = v
    return out


def env_key(e):
    return None if e is None else tuple(sorted((k, v.key()) for k, v in e.items()))


class Store:
    def __init__(self, func, lineno, how, text, roots, via=None):
        self.func, self.lineno, self.how, self.text, self.roots, self.via = func, lineno, how, text, frozenset(roots), via

    def input_roots(self):
        return sorted(r for r in self.roots if r[:2] in ("p:", "c:"))

    def global_roots(self):
        return sorted(r for r in self.roots if r[:2] == "g:")

    def as_dict(self):
        d = {"function": self.func, "line": self.lineno, "how": self.how, "text": self.text, "may_write": sorted(self.roots)}
        if self.via:
            d["via"] = self.via
        return d


class ModInfo:
    def __init__(self, name, path):
        self.name, self.path = name, path
        with open(path) as f:
            self.source = f.read()
        self.tree = ast.parse(self.source, filename=path)
        self.imports = {}       # local name -> dotted target ('numpy', 'PyMatterSim.utils.pbc.remove_pbc', 'time.time')
        self.funcs = {}         # name -> FuncInfo
        self.classes = {}       # name -> ClassInfo
        self.mutable_globals = {}   # name -> lineno
        self.all_globals = set()
        for n in self.tree.body:
            self._scan(n)

    def _scan(self, n):
        if isinstance(n, ast.Import):
            for a in n.names:
                self.imports[a.asname or a.name.split(".")[0]] = a.name if a.asname else a.name.split(".")[0]
        elif isinstance(n, ast.ImportFrom):
            base = n.module or ""
            if n.level:
                pk = self.name.split(".")[:-n.level]
                base = ".".join(pk + ([base] if base else []))
            for a in n.names:
                self.imports[a.asname or a.name] = f"{base}.{a.name}"
        elif isinstance(n, (ast.Assign, ast.AnnAssign)):
            tg = n.targets if isinstance(n, ast.Assign) else [n.target]
            for t in tg:
                if isinstance(t, ast.Name):
                    self.all_globals.add(t.id)
                    v = n.value
                    if isinstance(v, (ast.Dict, ast.List, ast.Set, ast.ListComp, ast.DictComp, ast.SetComp)) or \
                            (isinstance(v, ast.Call) and not (isinstance(v.func, ast.Name) and v.func.id in ("get_logger_handle", "TypeVar", "namedtuple"))
                             and not (isinstance(v.func, ast.Attribute) and v.func.attr in ("getLogger", "compile"))):
                        self.mutable_globals[t.id] = n.lineno
        elif isinstance(n, (ast.If, ast.Try)):
            for b in ast.iter_child_nodes(n):
                if isinstance(b, ast.stmt):
                    self._scan(b)


class ClassInfo:
    def __init__(self, mod, node):
        self.mod, self.node, self.name = mod, node, node.name
        self.methods = {}
        self.attr = {}            # attr -> AV in c:-roots
        self.attr_writers = {}    # attr -> set of method names that assign/store it
        self.frozen = any(isinstance(d, ast.Call) and any(k.arg == "frozen" and getattr(k.value, "value", False) for k in d.keywords)
                          for d in node.decorator_list)
        self.class_level_mutable = {}
        for b in node.body:
            if isinstance(b, ast.Assign) and isinstance(b.value, (ast.Dict, ast.List, ast.Set, ast.Call)):
                for t in b.targets:
                    if isinstance(t, ast.Name):
                        self.class_level_mutable[t.id] = b.lineno

    @property
    def qual(self):
        return f"{self.mod.name}.{self.name}"


class FuncInfo:
    def __init__(self, mod, node, cls=None):
        self.mod, self.node, self.cls = mod, node, cls
        self.name = node.name
        self.qualname = f"{cls.name}.{node.name}" if cls else node.name
        self.full = f"{mod.name}.{self.qualname}"
        a = node.args
        self.params = [x.arg for x in a.posonlyargs + a.args]
        self.kwonly = [x.arg for x in a.kwonlyargs]
        self.vararg = a.vararg.arg if a.vararg else None
        self.kwarg = a.kwarg.arg if a.kwarg else None
        self.is_method = cls is not None and not any(isinstance(d, ast.Name) and d.id == "staticmethod" for d in node.decorator_list)
        self.ann = {x.arg: (ast.unparse(x.annotation) if x.annotation is not None else None) for x in a.posonlyargs + a.args + a.kwonlyargs}
        nd = len(a.defaults)
        self.defaults = {}
        pos = a.posonlyargs + a.args
        for x, d in zip(pos[len(pos) - nd:], a.defaults):
            self.defaults[x.arg] = d
        for x, d in zip(a.kwonlyargs, a.kw_defaults):
            if d is not None:
                self.defaults[x.arg] = d
        # summaries
        self.mutates = set()        # parameter names possibly written
        self.ret = FRESH            # AV of the result in p:/c:/g: roots
        self._ret_seen = False
        self.stores = []
        self.state = {}

    def param_kind(self, p):
        ann = self.ann.get(p)
        d = self.defaults.get(p)
        if ann:
            if _SCALAR_ANN.match(ann.replace("typing.", "").replace(" ", "")):
                return "scalar"
            if _ARR_ANN.search(ann) and "List" not in ann and "Union" not in ann and "Optional" not in ann:
                return "arr"
            return "unk"
        if isinstance(d, ast.Constant) and d.value is not None:
            return "scalar"
        if isinstance(d, ast.UnaryOp) and isinstance(d.operand, ast.Constant):
            return "scalar"
        return "unk"

    def mutable_defaults(self):
        return sorted(p for p, d in self.defaults.items() if not isinstance(d, (ast.Constant, ast.UnaryOp, ast.Name, ast.Attribute, ast.Tuple))
                      or (isinstance(d, ast.Tuple) and d.elts and not all(isinstance(e, ast.Constant) for e in d.elts)))


class Package:
    """all modules of the package, enumerated from disk"""

    def __init__(self, repo, subpackages=SUBPACKAGES):
        self.repo = repo
        self.mods = {}
        self.parse_errors = []
        root = os.path.join(repo, PKG)
        for sub in subpackages:
            d = os.path.join(root, sub)
            if not os.path.isdir(d):
                continue
            for dirpath, _dirs, files in sorted(os.walk(d)):
                for f in sorted(files):
                    if not f.endswith(".py") or f == "__init__.py":
                        continue
                    path = os.path.join(dirpath, f)
                    rel = os.path.relpath(path, repo)[:-3].replace(os.sep, ".")
                    try:
                        self.mods[rel] = ModInfo(rel, path)
                    except SyntaxError as e:
                        self.parse_errors.append(f"{rel}: {e}")
        self.funcs = {}
        for m in self.mods.values():
            for n in m.tree.body:
                if isinstance(n, (ast.FunctionDef, ast.AsyncFunctionDef)):
                    fi = FuncInfo(m, n)
                    m.funcs[n.name] = fi
                    self.funcs[fi.full] = fi
                elif isinstance(n, ast.ClassDef):
                    ci = ClassInfo(m, n)
                    m.classes[n.name] = ci
                    for b in n.body:
                        if isinstance(b, (ast.FunctionDef, ast.AsyncFunctionDef)):
                            fi = FuncInfo(m, b, ci)
                            ci.methods[b.name] = fi
                            self.funcs[fi.full] = fi
        self.written_globals = set()    # g:-roots something stores into / rebinds through `global`

    # resolution of a dotted target to a repo function / class
    def resolve(self, dotted):
        if not dotted or not dotted.startswith(PKG + "."):
            return None
        mname, _, attr = dotted.rpartition(".")
        m = self.mods.get(mname)
        if m is None:
            return None
        if attr in m.funcs:
            return m.funcs[attr]
        if attr in m.classes:
            return m.classes[attr]
        if attr in m.imports:
            return self.resolve(m.imports[attr])
        return None

    def analyse(self, max_rounds=8):
        for rnd in range(max_rounds):
            before = self._summary_key()
            for fi in self.funcs.values():
                Analyzer(self, fi).run()
            if self._summary_key() == before:
                break
        self.rounds = rnd + 1
        for fi in self.funcs.values():
            for s in fi.stores:
                self.written_globals.update(s.global_roots())
            for g in fi.state.get("global_stmts", []):
                self.written_globals.add(f"g:{fi.mod.name}.{g}")
        return self

    def _summary_key(self):
        k = []
        for name, fi in sorted(self.funcs.items()):
            k.append((name, tuple(sorted(fi.mutates)), fi.ret.key(), len(fi.stores)))
        for m in self.mods.values():
            for c in m.classes.values():
                k.append((c.qual, tuple(sorted((a, v.key()) for a, v in c.attr.items())),
                          tuple(sorted((a, tuple(sorted(w))) for a, w in c.attr_writers.items()))))
        return tuple(k)


def dotted_name(e):
    parts = []
    while isinstance(e, ast.Attribute):
        parts.append(e.attr)
        e = e.value
    if isinstance(e, ast.Name):
        parts.append(e.id)
        return ".".join(reversed(parts))
    return None


def _txt(n, k=110):
    try:
        s = ast.unparse(n)
    except Exception:  # pragma: no cover
        s = type(n).__name__
    s = " ".join(s.split())
    return s if len(s) <= k else s[:k - 3] + "..."


class Analyzer:
    def __init__(self, pkg, fi):
        self.pkg, self.fi, self.mod = pkg, fi, fi.mod
        self.stores = {}
        self.ret = None
        self.weak = 0
        self.loops = []           # stack of [break_envs, continue_envs]
        self.self_reads, self.self_writes = {}, {}
        self.global_stmts, self.global_reads, self.setters = set(), {}, []
        self.nondet, self.file_writes, self.returns = [], [], []
        self.local_names = set()
        self.assign_log = []      # (lineno, name) rebinding / store log (for file=returned)
        self.unknown_syntax = []
        self.frozen_assigns = []

    # ---------------------------------------------------------------------------------------------------
    def run(self):
        fi = self.fi
        env = {}
        selfname = fi.params[0] if fi.is_method and fi.params else None
        self.selfname = selfname
        init = fi.cls is not None and fi.name == "__init__"
        for p in fi.params + fi.kwonly:
            if p == selfname:
                env[p] = AV(kind="unk", cls=fi.cls.qual)
                continue
            kind = fi.param_kind(p)
            r = {("c:" if init else "p:") + p}
            env[p] = AV(r, kind, inner=r)
        if fi.vararg:
            env[fi.vararg] = AV((), "unk", inner={"p:" + fi.vararg})
        if fi.kwarg:
            env[fi.kwarg] = AV((), "unk", inner={"p:" + fi.kwarg})
        for n in ast.walk(fi.node):
            if isinstance(n, ast.Name) and isinstance(n.ctx, ast.Store):
                self.local_names.add(n.id)
            elif isinstance(n, ast.Global):
                self.global_stmts.update(n.names)
        self.local_names -= self.global_stmts
        out = self.block(fi.node.body, env)
        if out is not None:
            self.ret = join(self.ret, SCALAR)     # falls off the end: None
            self.returns.append((getattr(fi.node, "end_lineno", 0), None))
        # publish summaries (monotone: union with the previous round)
        stores = sorted(self.stores.values(), key=lambda s: (s.lineno, s.how, s.text))
        fi.stores = stores
        mut = set(fi.mutates)
        for s in stores:
            for r in s.roots:
                if r[:2] in ("p:", "c:") and r[2:] in fi.params + fi.kwonly + [fi.vararg, fi.kwarg]:
                    if r[:2] == "p:" or init:
                        mut.add(r[2:])
        fi.mutates = mut
        if self.ret is not None:
            fi.ret = join(fi.ret, self.ret) if fi._ret_seen else self.ret
            fi._ret_seen = True
        fi.state = {
            "global_stmts": sorted(self.global_stmts), "global_reads": self.global_reads, "setters": self.setters,
            "self_reads": self.self_reads, "self_writes": self.self_writes, "nondet": self.nondet,
            "file_writes": self.file_writes, "returns": self.returns, "assign_log": self.assign_log,
            "unknown_syntax": self.unknown_syntax, "frozen_assigns": self.frozen_assigns,
        }

    # ---------------------------------------------------------------------------------------------------
    def store(self, node, how, av, via=None):
        roots = av.roots if isinstance(av, AV) else frozenset(av)
        if not roots:
            return
        key = (node.lineno, getattr(node, "col_offset", 0), how, via)
        old = self.stores.get(key)
        if old is not None:
            roots = roots | old.roots
        self.stores[key] = Store(self.fi.full, node.lineno, how, _txt(node), roots, via)

    def assign_name(self, env, name, av):
        if name in self.global_stmts:
            return
        if self.weak and name in env:
            av = join(env[name], av)
        env[name] = av

    # ---------------------------------------------------------------------------------------------------
    # statements
    def block(self, stmts, env):
        for s in stmts:
            if env is None:
                return None
            env = self.stmt(s, env)
        return env

    def stmt(self, s, env):
        m = getattr(self, "s_" + type(s).__name__, None)
        if m is None:
            self.unknown_syntax.append(f"{type(s).__name__} at line {s.lineno}")
            for e in ast.walk(s):
                if isinstance(e, ast.expr):
                    pass
            return env
        return m(s, env)

    def s_Expr(self, s, env):
        if isinstance(s.value, ast.Constant):
            return env
        self.ev(s.value, env)
        return env

    def s_Pass(self, s, env):
        return env

    s_Import = s_ImportFrom = s_Nonlocal = s_Pass

    def s_Global(self, s, env):
        return env

    def s_Delete(self, s, env):
        for t in s.targets:
            if isinstance(t, ast.Subscript):
                self.store(s, "del-item", self.ev(t.value, env))
        return env

    def s_Assert(self, s, env):
        self.ev(s.test, env)
        return env

    def s_Return(self, s, env):
        av = self.ev(s.value, env) if s.value is not None else SCALAR
        self.ret = join(self.ret, av)
        self.returns.append((s.lineno, s.value))
        return None

    def s_Raise(self, s, env):
        if s.exc is not None:
            self.ev(s.exc, env)
        return None

    def s_Break(self, s, env):
        if self.loops:
            self.loops[-1][0].append(dict(env))
        return None

    def s_Continue(self, s, env):
        if self.loops:
            self.loops[-1][1].append(dict(env))
        return None

    def s_Assign(self, s, env):
        av = self.ev(s.value, env)
        for t in s.targets:
            self.bind(t, av, env, s, value_node=s.value)
        return env

    def s_AnnAssign(self, s, env):
        if s.value is not None:
            self.bind(s.target, self.ev(s.value, env), env, s, value_node=s.value)
        return env

    def s_AugAssign(self, s, env):
        v = self.ev(s.value, env)
        t = s.target
        if isinstance(t, ast.Name):
            cur = self.lookup(t.id, env, t)
            if cur.kind != "scalar":
                self.store(s, "augassign-in-place", cur)        # ndarray/list: in place on the shared storage
                self.assign_log.append((s.lineno, t.id, "store"))
                if cur.kind != "arr" and v.reach:               # list += aliasing elements
                    env[t.id] = AV(cur.roots, cur.kind, cur.cls, None, cur.inner | v.reach)
            if t.id in self.global_stmts:
                pass
        elif isinstance(t, ast.Subscript):
            base = self.ev(t.value, env)
            self.ev_index(t.slice, env)
            self.store(s, "item-augassign", base)
            self._log_store_target(t, s.lineno)
        elif isinstance(t, ast.Attribute):
            cur = self.ev(t, env)
            if cur.kind != "scalar":
                self.store(s, "attr-augassign-in-place", cur)
            if isinstance(t.value, ast.Name) and t.value.id == self.selfname:
                self.self_writes.setdefault(t.attr, []).append(s.lineno)
                self._class_attr_write(t.attr, cur if cur.kind == "arr" else AV(cur.roots, cur.kind, cur.cls, None, cur.inner | v.reach))
            else:
                self.store(s, "attr-rebind-on-object", self.ev(t.value, env))
        return env

    def _log_store_target(self, t, lineno):
        b = t
        while isinstance(b, (ast.Subscript, ast.Attribute)):
            b = b.value
        if isinstance(b, ast.Name):
            self.assign_log.append((lineno, b.id, "store"))

    def _class_attr_write(self, attr, av):
        ci = self.fi.cls
        if ci is None:
            return
        meth = self.fi.name
        def tr(rs):
            return {(f"c:{meth}.{r[2:]}" if (r[:2] == "p:" and meth != "__init__") else r) for r in rs}
        new = AV(tr(av.roots), av.kind, av.cls, None, tr(av.inner))
        ci.attr[attr] = join(ci.attr.get(attr), new) if attr in ci.attr else new
        ci.attr_writers.setdefault(attr, set()).add(meth)

    def bind(self, t, av, env, stmt, value_node=None):
        if isinstance(t, ast.Name):
            self.assign_name(env, t.id, av)
            self.assign_log.append((stmt.lineno, t.id, "bind"))
        elif isinstance(t, (ast.Tuple, ast.List)):
            n = len(t.elts)
            if isinstance(value_node, (ast.Tuple, ast.List)) and len(value_node.elts) == n and not any(isinstance(e, ast.Starred) for e in value_node.elts):
                parts = [self.ev(e, env) for e in value_node.elts]
            elif av.parts and len(av.parts) == n:
                parts = list(av.parts)
            else:
                el = self.element_of(av)
                parts = [el] * n
            for e, p in zip(t.elts, parts):
                if isinstance(e, ast.Starred):
                    self.bind(e.value, AV((), "unk", inner=p.reach), env, stmt)
                else:
                    self.bind(e, p, env, stmt)
        elif isinstance(t, ast.Subscript):
            base = self.ev(t.value, env)
            self.ev_index(t.slice, env)
            self.store(stmt, "item-assign", base)
            self._log_store_target(t, stmt.lineno)
            # an aliasing value put into a container that is not certainly an ndarray: the container now holds the alias
            if av.reach and base.kind != "arr":
                self.weak_add(t.value, av, env)
        elif isinstance(t, ast.Attribute):
            if isinstance(t.value, ast.Name) and t.value.id == self.selfname:
                self.self_writes.setdefault(t.attr, []).append(stmt.lineno)
                self._class_attr_write(t.attr, av)
            else:
                base = self.ev(t.value, env)
                ci = self.pkg.resolve(base.cls) if base.cls else None
                if isinstance(ci, ClassInfo) and ci.frozen:
                    # assignment to a field of a @dataclass(frozen=True) instance raises FrozenInstanceError: no store happens
                    if not any(x["line"] == stmt.lineno for x in self.frozen_assigns):
                        self.frozen_assigns.append({"line": stmt.lineno, "text": _txt(stmt), "class": ci.qual})
                    return
                self.store(stmt, "attr-assign-on-object", base)
                if av.reach:
                    self.weak_add(t.value, av, env)
        elif isinstance(t, ast.Starred):
            self.bind(t.value, av, env, stmt)

    def weak_add(self, target_expr, av, env):
        """the object denoted by target_expr now (also) holds storage of av"""
        b = target_expr
        while isinstance(b, ast.Subscript):
            b = b.value
        if isinstance(b, ast.Name) and b.id in env:
            cur = env[b.id]
            ecls = av.cls if cur.ecls in ("?empty", av.cls) and target_expr is b else None
            env[b.id] = AV(cur.roots, cur.kind if cur.kind not in ("scalar", "arr") else "unk", cur.cls, None, cur.inner | av.reach, ecls)
        elif isinstance(b, ast.Attribute) and isinstance(b.value, ast.Name) and b.value.id == self.selfname:
            self._class_attr_write(b.attr, AV((), "unk", inner=av.reach))

    def element_of(self, av):
        """an element obtained by iterating / unpacking av"""
        if av.kind == "scalar":
            return SCALAR
        if av.kind == "arr":
            return AV(av.roots, "unk")        # a row view or a number
        return AV(av.reach, "unk", inner=av.inner, cls=av.ecls if av.ecls != "?empty" else None)

    def s_If(self, s, env):
        self.ev(s.test, env)
        e1 = self.block(s.body, dict(env))
        e2 = self.block(s.orelse, dict(env))
        return join_env(e1, e2)

    def s_With(self, s, env):
        for it in s.items:
            av = self.ev(it.context_expr, env)
            if it.optional_vars is not None:
                self.bind(it.optional_vars, av, env, s)
        return self.block(s.body, env)

    s_AsyncWith = s_With

    def s_Try(self, s, env):
        pre = dict(env)
        self.weak += 1
        body = self.block(s.body, dict(env))
        self.weak -= 1
        mid = join_env(pre, body)
        outs = []
        for h in s.handlers:
            he = dict(mid)
            if h.name:
                he[h.name] = FRESH
            outs.append(self.block(h.body, he))
        if s.orelse:
            body = self.block(s.orelse, body) if body is not None else None
        res = body
        for o in outs:
            res = join_env(res, o)
        if s.finalbody:
            res = self.block(s.finalbody, res if res is not None else dict(mid))
        return res

    s_TryStar = s_Try

    def _loop(self, s, env, bind_target):
        self.loops.append([[], []])
        cur = dict(env)
        exit_env = None
        for _ in range(12):
            start = dict(cur)
            bind_target(start)
            body = self.block(s.body, start)
            brk, cont = self.loops[-1]
            for c in cont:
                body = join_env(body, c)
            self.loops[-1][1] = []
            nxt = join_env(cur, body)
            if env_key(nxt) == env_key(cur):
                cur = nxt
                break
            cur = nxt
        brk = self.loops.pop()[0]
        # normal exit: the loop condition failed / the iterator is exhausted (possibly after zero iterations)
        exit_env = dict(cur)
        if s.orelse:
            exit_env = self.block(s.orelse, exit_env)
        for b in brk:
            exit_env = join_env(exit_env, b)
        return exit_env

    def s_For(self, s, env):
        it = self.ev(s.iter, env)
        parts = self.iter_parts(s.iter, env, it)

        def bt(e):
            self.bind_iter(s.target, parts, e, s)
        return self._loop(s, env, bt)

    s_AsyncFor = s_For

    def s_While(self, s, env):
        def bt(e):
            self.ev(s.test, e)
        out = self._loop(s, env, bt)
        # `while True` without break: no normal exit
        if isinstance(s.test, ast.Constant) and s.test.value is True and not any(isinstance(n, ast.Break) for n in ast.walk(s)):
            return None
        return out

    def iter_parts(self, it_node, env, it_av):
        """AV(s) of the loop target(s): range -> scalar; enumerate(x) -> (scalar, elem x); zip(a,b) -> (elem a, elem b)"""
        if isinstance(it_node, ast.Call) and isinstance(it_node.func, ast.Name) and it_node.func.id not in env:
            f = it_node.func.id
            if f == "range":
                return SCALAR
            if f == "enumerate" and it_node.args:
                return AV(parts=(SCALAR, self.iter_parts(it_node.args[0], env, self.ev(it_node.args[0], env))))
            if f == "zip":
                return AV(parts=tuple(self.iter_parts(a, env, self.ev(a, env)) for a in it_node.args))
            if f in ("reversed", "sorted", "list", "tuple", "iter") and it_node.args:
                return self.iter_parts(it_node.args[0], env, self.ev(it_node.args[0], env))
        if isinstance(it_node, ast.Call) and isinstance(it_node.func, ast.Attribute) and it_node.func.attr in ("items",):
            base = self.ev(it_node.func.value, env)
            return AV(parts=(AV(base.reach, "unk", inner=base.inner), AV(base.reach, "unk", inner=base.inner)))
        if isinstance(it_node, ast.Call) and dotted_name(it_node.func) in ("np.ndindex", "itertools.product", "np.arange") and \
                all(self.ev(a, env).kind == "scalar" for a in it_node.args):
            return SCALAR
        return self.element_of(it_av)

    def bind_iter(self, t, parts, env, stmt):
        if isinstance(t, (ast.Tuple, ast.List)):
            if parts.parts and len(parts.parts) == len(t.elts):
                for e, p in zip(t.elts, parts.parts):
                    self.bind_iter(e, p, env, stmt)
            else:
                el = self.element_of(parts) if not parts.parts else AV(frozenset().union(*[p.roots for p in parts.parts]), "unk", inner=frozenset().union(*[p.inner for p in parts.parts]))
                for e in t.elts:
                    self.bind_iter(e, el, env, stmt)
        else:
            if parts.parts:
                parts = AV((), "unk", inner=frozenset().union(*[p.reach for p in parts.parts]))
            self.bind(t, parts, env, stmt)

    def s_FunctionDef(self, s, env):
        # nested function: its body is analysed in the enclosing environment (closure); its stores count for the encloser
        inner = dict(env)
        for a in s.args.posonlyargs + s.args.args + s.args.kwonlyargs:
            inner[a.arg] = FRESH
        saved_ret, saved_returns = self.ret, list(self.returns)
        self.loops.append([[], []])
        self.block(s.body, inner)
        self.loops.pop()
        self.ret, self.returns = saved_ret, saved_returns
        env[s.name] = FRESH
        return env

    s_AsyncFunctionDef = s_FunctionDef

    def s_ClassDef(self, s, env):
        env[s.name] = FRESH
        return env

    def s_Match(self, s, env):
        self.ev(s.subject, env)
        out = None
        for c in s.cases:
            e = dict(env)
            for n in ast.walk(c.pattern):
                if isinstance(n, (ast.MatchAs, ast.MatchStar)) and n.name:
                    e[n.name] = self.element_of(self.ev(s.subject, env))
            out = join_env(out, self.block(c.body, e))
        return join_env(out, env)

    # ---------------------------------------------------------------------------------------------------
    # expressions
    def lookup(self, name, env, node=None):
        if name in env:
            return env[name]
        m = self.mod
        if name in self.local_names:
            return FRESH                      # unbound local on this path
        if name in m.mutable_globals:
            self.global_reads.setdefault(name, []).append(node.lineno if node is not None else 0)
            return AV({f"g:{m.name}.{name}"}, "unk", inner={f"g:{m.name}.{name}"})
        if name in m.all_globals:
            return SCALAR
        return FRESH

    def ev(self, e, env):
        if e is None:
            return SCALAR
        m = getattr(self, "e_" + type(e).__name__, None)
        if m is None:
            self.unknown_syntax.append(f"{type(e).__name__} at line {getattr(e, 'lineno', 0)}")
            # unknown expression form: may alias anything it mentions
            roots = set()
            for n in ast.walk(e):
                if isinstance(n, ast.Name) and n.id in env:
                    roots |= env[n.id].reach
            return AV(roots, "unk", inner=roots)
        return m(e, env)

    def e_Constant(self, e, env):
        return SCALAR

    def e_JoinedStr(self, e, env):
        for v in e.values:
            if isinstance(v, ast.FormattedValue):
                self.ev(v.value, env)
        return SCALAR

    def e_FormattedValue(self, e, env):
        self.ev(e.value, env)
        return SCALAR

    def e_Name(self, e, env):
        return self.lookup(e.id, env, e)

    def e_NamedExpr(self, e, env):
        av = self.ev(e.value, env)
        self.assign_name(env, e.target.id, av)
        return av

    def e_Lambda(self, e, env):
        inner = dict(env)
        for a in e.args.args:
            inner[a.arg] = FRESH
        self.ev(e.body, inner)
        return FRESH

    def e_Starred(self, e, env):
        return self.ev(e.value, env)

    def e_Await(self, e, env):
        return self.ev(e.value, env)

    def e_Yield(self, e, env):
        av = self.ev(e.value, env) if e.value is not None else SCALAR
        self.ret = join(self.ret, AV((), "unk", inner=av.reach))
        return FRESH

    e_YieldFrom = e_Yield

    def _arith_kind(self, avs):
        ks = [a.kind for a in avs]
        if all(k == "scalar" for k in ks):
            return "scalar"
        if any(k == "arr" for k in ks):
            return "arr"
        if any(k == "seq" for k in ks):
            return "seq"
        return "unk"

    def e_BinOp(self, e, env):
        a, b = self.ev(e.left, env), self.ev(e.right, env)
        if isinstance(e.op, ast.Mod) and isinstance(e.left, (ast.Constant, ast.JoinedStr)):
            return SCALAR
        k = self._arith_kind([a, b])
        if k in ("unk", "seq") and isinstance(e.op, (ast.Add, ast.Mult)):
            # list + list / list * n: a new list holding the same elements
            return AV((), k, inner=(a.inner | b.inner) if (a.kind != "arr" and b.kind != "arr") else ())
        return AV((), k)

    def e_UnaryOp(self, e, env):
        a = self.ev(e.operand, env)
        if isinstance(e.op, ast.Not):
            return SCALAR
        return AV((), a.kind)

    def e_BoolOp(self, e, env):
        out = None
        for v in e.values:
            out = join(out, self.ev(v, env))
        return out

    def e_Compare(self, e, env):
        avs = [self.ev(e.left, env)] + [self.ev(c, env) for c in e.comparators]
        if all(isinstance(o, (ast.Is, ast.IsNot, ast.In, ast.NotIn)) for o in e.ops):
            return SCALAR
        return AV((), self._arith_kind(avs))

    def e_IfExp(self, e, env):
        self.ev(e.test, env)
        return join(self.ev(e.body, env), self.ev(e.orelse, env))

    def _container(self, elts, env):
        roots, parts = set(), []
        for x in elts:
            av = self.ev(x, env)
            roots |= av.reach
            parts.append(av)
        return roots, parts

    def e_Tuple(self, e, env):
        roots, parts = self._container(e.elts, env)
        return AV((), "unk" if roots or any(p.kind != "scalar" for p in parts) else "seq", parts=tuple(parts), inner=roots)

    def e_List(self, e, env):
        roots, parts = self._container(e.elts, env)
        ecls = "?empty" if not parts else (parts[0].cls if all(p.cls == parts[0].cls for p in parts) else None)
        return AV((), "seq" if not roots else "unk", inner=roots, ecls=ecls)

    e_Set = e_List

    def e_Dict(self, e, env):
        roots, _ = self._container([v for v in e.values if v is not None] + [k for k in e.keys if k is not None], env)
        return AV((), "unk", inner=roots)

    def _comp(self, e, env, elts):
        inner = dict(env)
        for g in e.generators:
            it = self.ev(g.iter, inner)
            self.bind_iter(g.target, self.iter_parts(g.iter, inner, it), inner, e)
            for c in g.ifs:
                self.ev(c, inner)
        roots = set()
        for x in elts:
            roots |= self.ev(x, inner).reach
        return AV((), "seq" if not roots else "unk", inner=roots)

    def e_ListComp(self, e, env):
        return self._comp(e, env, [e.elt])

    e_SetComp = e_GeneratorExp = e_ListComp

    def e_DictComp(self, e, env):
        return self._comp(e, env, [e.key, e.value])

    def e_Slice(self, e, env):
        for x in (e.lower, e.upper, e.step):
            if x is not None:
                self.ev(x, env)
        return SCALAR

    def e_Attribute(self, e, env):
        dn = dotted_name(e)
        # module attribute (np.pi, np.newaxis, freud.box ...)
        if dn:
            head = dn.split(".")[0]
            if head not in env and head not in self.local_names and head in self.mod.imports:
                tgt = self.mod.imports[head] + dn[len(head):]
                r = self.pkg.resolve(tgt)
                if isinstance(r, (FuncInfo, ClassInfo)):
                    return FRESH
                mg = tgt.rpartition(".")
                mm = self.pkg.mods.get(mg[0])
                if mm is not None and mg[2] in mm.mutable_globals:
                    self.global_reads.setdefault(f"{mg[0]}.{mg[2]}", []).append(e.lineno)
                    return AV({f"g:{mg[0]}.{mg[2]}"}, "unk", inner={f"g:{mg[0]}.{mg[2]}"})
                return SCALAR if tgt.split(".")[0] in ("numpy", "math") else FRESH
        if isinstance(e.value, ast.Name) and e.value.id == self.selfname and self.fi.cls is not None:
            ci = self.fi.cls
            self.self_reads.setdefault(e.attr, []).append(e.lineno)
            if e.attr in ci.methods:
                return FRESH
            if e.attr in ci.attr:
                return ci.attr[e.attr]
            if e.attr in ci.class_level_mutable:
                return AV({f"g:{ci.qual}.{e.attr}"}, "unk", inner={f"g:{ci.qual}.{e.attr}"})
            return FRESH
        base = self.ev(e.value, env)
        if e.attr in SCALAR_ATTRS:
            return SCALAR
        if base.cls:
            ci = self.pkg.resolve(base.cls)
            if isinstance(ci, ClassInfo) and e.attr in ci.attr:
                a = ci.attr[e.attr]
                return AV(base.reach if a.roots else (), a.kind, a.cls, None, base.reach if a.inner else ())
        if base.kind == "scalar":
            return SCALAR
        if e.attr in VIEW_ATTRS:
            return AV(base.reach, "arr" if e.attr in ("T", "mT", "real", "imag", "values") and base.kind in ("arr",) or e.attr == "values" else "unk", inner=base.inner)
        return AV(base.reach, "unk", inner=base.inner)

    def index_kind(self, sl, env):
        """'basic' (result is a view / an element), 'fancy' (result is a copy for ndarrays), 'unknown'"""
        if isinstance(sl, ast.Tuple):
            ks = [self.index_kind(x, env) for x in sl.elts]
            if "fancy" in ks:
                return "fancy"
            return "unknown" if "unknown" in ks else "basic"
        if isinstance(sl, ast.Slice):
            self.e_Slice(sl, env)
            return "basic"
        if isinstance(sl, ast.Constant):
            return "basic"
        if isinstance(sl, (ast.List, ast.ListComp)):
            self.ev(sl, env)
            return "fancy"
        av = self.ev(sl, env)
        if av.kind == "scalar":
            return "basic"
        if av.kind in ("arr", "seq"):
            return "fancy"
        return "unknown"

    def ev_index(self, sl, env):
        return self.index_kind(sl, env)

    def has_slice(self, sl):
        return isinstance(sl, ast.Slice) or (isinstance(sl, ast.Tuple) and any(isinstance(x, ast.Slice) for x in sl.elts))

    def e_Subscript(self, e, env):
        base = self.ev(e.value, env)
        ik = self.index_kind(e.slice, env)
        if base.kind == "scalar":
            return SCALAR
        if base.parts and isinstance(e.slice, ast.Constant) and isinstance(e.slice.value, int) and -len(base.parts) <= e.slice.value < len(base.parts):
            return base.parts[e.slice.value]
        if base.kind == "arr":
            if ik == "fancy":
                return ARR
            return AV(base.roots, "arr" if self.has_slice(e.slice) else "unk")
        # list / dict / dataframe / unknown: element or sub-container sharing the elements
        if ik == "fancy" and base.kind == "seq" and not base.reach:
            return AV((), "seq")
        k = "seq" if self.has_slice(e.slice) else "unk"
        if ik == "fancy" and k != "seq":
            k = "seq"
        if self.has_slice(e.slice) and base.kind == "seq" and not base.roots:
            return AV((), k, inner=base.inner, ecls=base.ecls)       # slice of a list: a new list holding the same elements
        return AV(base.reach, k, inner=base.inner, cls=(base.ecls if base.ecls != "?empty" and not self.has_slice(e.slice) and not base.roots else None))

    # ---- calls
    def call_args(self, e, env):
        pos = [self.ev(a, env) for a in e.args]
        kw = {k.arg: self.ev(k.value, env) for k in e.keywords}
        return pos, kw

    def kw_const(self, e, name):
        for k in e.keywords:
            if k.arg == name and isinstance(k.value, ast.Constant):
                return k.value.value
        return None

    def e_Call(self, e, env):
        f = e.func
        dn = dotted_name(f)
        pos, kw = self.call_args(e, env)
        allav = pos + list(kw.values())
        allroots = frozenset().union(*[a.reach for a in allav]) if allav else frozenset()
        # out= : the result is written into (and is) the given array
        if "out" in kw and kw["out"].kind != "scalar":
            self.store(e, "out=", kw["out"])
            return AV(kw["out"].roots, "arr")
        if self.kw_const(e, "inplace") is True and isinstance(f, ast.Attribute):
            self.store(e, "inplace=True", self.ev(f.value, env))
        # resolve the callee
        canon = None
        if dn:
            head = dn.split(".")[0]
            if head not in env and head not in self.local_names:
                if head in self.mod.imports:
                    canon = self.mod.imports[head] + dn[len(head):]
                elif head in self.mod.funcs or head in self.mod.classes:
                    canon = f"{self.mod.name}.{dn}"
                elif "." not in dn:
                    canon = "builtins." + dn
        self._note_special(e, dn, canon, pos, kw, env)
        if canon:
            tgt = self.pkg.resolve(canon)
            if isinstance(tgt, FuncInfo):
                return self.call_repo(e, tgt, pos, kw, None)
            if isinstance(tgt, ClassInfo):
                return self.call_ctor(e, tgt, pos, kw)
            if canon.startswith("numpy.") or canon == "numpy":
                return self.call_numpy(e, canon[6:], pos, kw, env)
            if canon.startswith("builtins."):
                return self.call_builtin(e, canon[9:], pos, kw, allroots, env)
            if canon.startswith("copy."):
                if canon == "copy.deepcopy":
                    return AV((), pos[0].kind if pos else "unk")
                return AV((), pos[0].kind if pos else "unk", inner=pos[0].inner if pos else ())
            if canon.startswith("pandas."):
                name = canon[7:]
                if name in ("DataFrame", "Series", "Index", "concat", "DataFrame.from_dict", "DataFrame.from_records"):
                    return AV(allroots, "unk", inner=allroots)      # may share the buffer of an ndarray argument
                return FRESH
            if canon.startswith(("math.", "cmath.")):
                return SCALAR
            if canon.startswith(PKG + "."):
                return FRESH                         # unresolved repo name (reported through unknown names elsewhere)
            # any other library (scipy, freud, sympy, os, re, subprocess, ...): assumed not to write its arguments and
            # to return new objects (TRUSTED)
            return FRESH
        # method call on a value
        if isinstance(f, ast.Attribute):
            return self.call_method(e, f, pos, kw, env)
        # call of a local callable (parameter / closure / lambda): opaque, assumed not to write its arguments
        self.ev(f, env)
        return FRESH

    def _note_special(self, e, dn, canon, pos, kw, env):
        name = None
        if canon:
            name = canon
            if canon.startswith("numpy."):
                name = "np." + canon[6:]
            elif canon.startswith("pandas."):
                name = "pd." + canon[7:]
            elif canon.startswith("builtins."):
                name = canon[9:]
            elif canon.startswith("matplotlib.pyplot."):
                name = "plt." + canon[18:]
        if name is None:
            return
        if name in GLOBAL_STATE_SETTERS and not any(x["line"] == e.lineno for x in self.setters):
            self.setters.append({"line": e.lineno, "call": _txt(e)})
        if (name in NONDET_CALLS or (name.startswith(NONDET_PREFIXES) and name not in DET_RANDOM)) and not any(x["node"] is e for x in self.nondet):
            self.nondet.append({"line": e.lineno, "call": name, "node": e})
        if name in NP_FILE_WRITERS:
            k = NP_FILE_WRITERS[name]
            val = e.args[k] if len(e.args) > k else next((x.value for x in e.keywords if x.arg in ("arr", "X")), None)
            if not any(w["node"] is e for w in self.file_writes):
                self.file_writes.append({"line": e.lineno, "writer": name, "value": val, "file": e.args[0] if e.args else None, "node": e})

    def bind_call(self, fi, pos, kw, skip_self):
        """parameter name -> AV of the argument"""
        params = fi.params[1:] if skip_self else list(fi.params)
        out = {}
        extra = []
        for i, a in enumerate(pos):
            if i < len(params):
                out[params[i]] = a
            else:
                extra.append(a)
        for k, a in kw.items():
            if k is None:
                extra.append(a)
            elif k in params or k in fi.kwonly:
                out[k] = a
            else:
                extra.append(a)
        if extra:
            ex = frozenset().union(*[a.reach for a in extra])
            for p in params + fi.kwonly:
                if p not in out:
                    out[p] = AV(ex, "unk", inner=ex)
            for v in (fi.vararg, fi.kwarg):
                if v:
                    out[v] = AV(ex, "unk", inner=ex)
        return out

    def _map_roots(self, roots, binding, selfav, samecls, deep=False):
        """roots of a callee summary -> storages at the call site.  A callee root p:x denotes storage reachable from its
        argument x: the argument object itself (roots) and, for containers/objects, what it holds (inner)."""
        out = set()
        for r in roots:
            if r[:2] == "p:":
                a = binding.get(r[2:])
                if a is not None:
                    out |= a.reach
            elif r[:2] == "c:":
                if samecls:
                    out.add(r)
                elif selfav is not None:
                    out |= selfav.reach
            else:
                out.add(r)
        return out

    def call_repo(self, e, fi, pos, kw, selfav, samecls=False):
        skip = fi.is_method
        binding = self.bind_call(fi, pos, kw, skip)
        for s in fi.stores:
            roots = self._map_roots(s.roots, binding, selfav, samecls)
            if roots:
                self.store(e, "callee-writes", roots, via=f"{s.func}:{s.lineno}")
        r = fi.ret
        parts = None
        if r.parts:
            parts = tuple(AV(self._map_roots(p.roots, binding, selfav, samecls), p.kind, p.cls, None, self._map_roots(p.inner, binding, selfav, samecls)) for p in r.parts)
        return AV(self._map_roots(r.roots, binding, selfav, samecls), r.kind, r.cls, parts, self._map_roots(r.inner, binding, selfav, samecls))

    def call_ctor(self, e, ci, pos, kw):
        init = ci.methods.get("__init__")
        roots = set()
        if init is not None:
            binding = self.bind_call(init, pos, kw, True)
            kept = set()
            for av in ci.attr.values():
                for r in av.reach:
                    if r[:2] == "c:":
                        kept.add(r[2:])
            for p, a in binding.items():
                if p in kept:
                    roots |= a.reach
            for s in init.stores:
                rs = set()
                for r in s.roots:
                    if r[:2] == "c:" and r[2:] in binding:
                        rs |= binding[r[2:]].reach
                    elif r[:2] == "g:":
                        rs.add(r)
                if rs:
                    self.store(e, "callee-writes", rs, via=f"{s.func}:{s.lineno}")
        else:
            # dataclass-like: every argument is kept
            for a in pos + list(kw.values()):
                roots |= a.reach
        return AV((), "unk", ci.qual, None, roots)

    def call_numpy(self, e, name, pos, kw, env):
        first = pos[0] if pos else (next(iter(kw.values())) if kw else FRESH)
        if name in NP_INPLACE or name.endswith(".at"):
            self.store(e, "numpy-in-place", first)
            return SCALAR
        if name in NP_VIEW_IF_NOCOPY:
            if self.kw_const(e, "copy") is False:
                return AV(first.roots, "arr")
            return ARR
        if name in NP_VIEW:
            roots = frozenset().union(*[a.reach for a in pos]) if pos else frozenset()
            return AV(roots, "arr" if name not in ("split", "array_split", "hsplit", "vsplit", "dsplit", "broadcast_arrays", "meshgrid", "atleast_1d", "atleast_2d", "atleast_3d", "ix_", "unstack") or len(pos) == 1 and name.startswith("atleast") else "unk")
        if name in NP_SCALAR:
            return SCALAR
        if name in NP_ALLOC:
            return ARR
        # element-wise / reducing function: new value; scalar for scalar arguments
        ks = [a.kind for a in pos]
        if ks and all(k == "scalar" for k in ks):
            return SCALAR
        if any(k in ("arr", "seq") for k in ks) and "axis" in kw:
            return ARR
        return AV((), "unk")

    def call_builtin(self, e, name, pos, kw, allroots, env):
        if name in SCALAR_BUILTINS:
            if name == "abs" and pos and pos[0].kind != "scalar":
                return AV((), pos[0].kind)
            return SCALAR
        if name in ("setattr", "delattr") and pos:
            self.store(e, name, pos[0])
            return SCALAR
        if name in ("min", "max", "sum", "any", "all"):
            # an element of the argument(s) (max of a list of arrays returns one of them) or a new number
            if all(a.kind in ("scalar",) for a in pos):
                return SCALAR
            return AV(allroots if name in ("min", "max") else (), "unk", inner=allroots if name in ("min", "max") else ())
        if name in ("getattr", "next", "vars"):
            return AV(allroots, "unk", inner=allroots)
        if name in ELEMENT_BUILTINS:
            kind = "seq" if name in ("list", "tuple", "sorted", "set", "frozenset") else "unk"
            return AV((), kind if not allroots else "unk", inner=allroots)
        return FRESH

    def call_method(self, e, f, pos, kw, env):
        m = f.attr
        # self.method(...)
        if isinstance(f.value, ast.Name) and f.value.id == self.selfname and self.fi.cls is not None and m in self.fi.cls.methods:
            self.self_reads.setdefault(m, [])
            return self.call_repo(e, self.fi.cls.methods[m], pos, kw, None, samecls=True)
        # logger.* : effect-free by the extraction rule
        if isinstance(f.value, ast.Name) and f.value.id == "logger":
            return SCALAR
        base = self.ev(f.value, env)
        if base.cls:
            ci = self.pkg.resolve(base.cls)
            if isinstance(ci, ClassInfo) and m in ci.methods:
                return self.call_repo(e, ci.methods[m], pos, kw, base, samecls=False)
        allroots = frozenset().union(*[a.reach for a in pos + list(kw.values())]) if (pos or kw) else frozenset()
        if m in FILE_WRITERS:
            if not any(w["node"] is e for w in self.file_writes):
                self.file_writes.append({"line": e.lineno, "writer": "." + m, "value": f.value, "file": e.args[0] if e.args else None, "node": e})
            return SCALAR
        if base.kind == "scalar":
            return SCALAR if m not in ("split", "splitlines", "partition", "rsplit") else AV((), "seq")
        if m in INPLACE_METHODS:
            # text/file receivers never have input roots; containers and arrays reachable from an input do
            self.store(e, f"in-place-method .{m}()", base)
            if isinstance(f.value, ast.Name):
                self.assign_log.append((e.lineno, f.value.id, "store"))
            if m in CONTAINER_ADD and base.kind != "arr" and (allroots or base.ecls):
                self.weak_add(f.value, AV(allroots, "unk", cls=(pos[0].cls if (m == "append" and len(pos) == 1) else None)), env)
            if m in ("pop", "popitem", "setdefault"):
                return AV(base.inner, "unk", inner=base.inner)
            return SCALAR
        if m == "astype":
            return AV(base.roots, "arr") if self.kw_const(e, "copy") is False else ARR
        if m == "copy":
            # ndarray.copy(): new buffer; list/dict.copy(): new container holding the same elements
            return ARR if base.kind == "arr" else AV((), base.kind, inner=base.inner)
        if m in VIEW_METHODS:
            return AV(base.reach, "arr" if base.kind == "arr" and m in ("reshape", "ravel", "view", "squeeze", "transpose", "swapaxes", "diagonal") else "unk", inner=base.inner)
        if m in REDUCING_METHODS:
            return AV((), "unk" if not ("axis" in kw or pos) else "seq") if base.kind in ("arr", "seq") else AV((), "unk")
        if m in ("flatten", "round", "conj", "conjugate", "clip", "cumsum", "cumprod", "argsort", "repeat", "take", "compress", "nonzero", "searchsorted", "choose"):
            return ARR if base.kind in ("arr", "seq") else AV((), "unk")
        if m in ("join", "format", "strip", "lower", "upper", "replace", "startswith", "endswith", "count", "index", "find", "close", "write", "flush", "seek", "tell", "readline", "read", "is_integer"):
            return SCALAR
        if m in ("split", "readlines", "splitlines"):
            return AV((), "seq")
        # unknown method of an unknown object (pandas frames, freud objects, ...): a new object (TRUSTED: library methods do
        # not write their receiver unless listed above / called with inplace=True)
        return AV((), "unk")


# ------------------------------------------------------------------------------------------------------------
# derived per-function judgements


def frame_report(fi):
    """potential stores into input storage: [(Store)]"""
    return [s for s in fi.stores if s.input_roots()]


def hidden_state_report(pkg, fi, named_self_state=()):
    """-> (violations, observations)"""
    bad, obs = [], []
    st = fi.state
    for g in st.get("global_stmts", []):
        bad.append(f"`global {g}` statement")
    for s in fi.stores:
        for g in s.global_roots():
            bad.append(f"line {s.lineno}: writes module-level object {g[2:]} ({s.text})")
    for name, lines in st.get("global_reads", {}).items():
        full = name if "." in name else f"{fi.mod.name}.{name}"
        if f"g:{full}" in pkg.written_globals:
            bad.append(f"line {lines[0]}: reads module-level object {full} that some function writes")
    for s in st.get("setters", []):
        obs.append(f"line {s['line']}: sets process-global library state: {s['call']}")
    if fi.cls is not None and fi.name != "__init__":
        ci = fi.cls
        for attr, lines in sorted(st.get("self_reads", {}).items()):
            writers = {w for w in ci.attr_writers.get(attr, set()) if w != "__init__"}
            if not writers:
                continue
            tag = f"{ci.name}.{attr}"
            msg = f"line {lines[0] if lines else fi.node.lineno}: reads self.{attr}, which method(s) {sorted(writers)} assign after construction"
            if tag in named_self_state:
                obs.append(msg + " (documented call-order dependence, named by the contract)")
            elif writers == {fi.name} and _assigned_before_read(fi, attr):
                obs.append(msg + " (assigned by this same call before it is read)")
            else:
                bad.append(msg)
        for mname in sorted(m for m in st.get("self_reads", {}) if m in ci.methods):
            pass
    if fi.mutable_defaults():
        for p in fi.mutable_defaults():
            if p in fi.mutates:
                bad.append(f"mutable default argument {p!r} is written: the default object is state shared between calls")
            else:
                obs.append(f"mutable default argument {p!r} (shared between calls; never written by this function)")
    return bad, obs


def _assigned_before_read(fi, attr):
    """self.attr is assigned (plain `self.attr = ...` at the top level of the body) before its first read"""
    first_read = min(fi.state["self_reads"].get(attr) or [10 ** 9])
    for s in fi.node.body:
        if s.lineno >= first_read:
            break
        if isinstance(s, ast.Assign) and any(isinstance(t, ast.Attribute) and isinstance(t.value, ast.Name) and t.attr == attr for t in s.targets):
            return True
    return False


def determinism_report(fi):
    """calls of non-deterministic library functions whose value reaches something else than a logger call"""
    nd = fi.state.get("nondet", [])
    if not nd:
        return [], []
    node = fi.node
    parents = {}
    for p in ast.walk(node):
        for c in ast.iter_child_nodes(p):
            parents[c] = p

    def in_logger(n):
        while n in parents:
            n = parents[n]
            if isinstance(n, ast.Call) and isinstance(n.func, ast.Attribute) and isinstance(n.func.value, ast.Name) and n.func.value.id in ("logger", "logging"):
                return True
            if isinstance(n, ast.Call) and isinstance(n.func, ast.Name) and n.func.id == "print":
                return True
        return False

    def stmt_of(n):
        while n in parents and not isinstance(n, ast.stmt):
            n = parents[n]
        return n

    tainted = set()
    bad, obs = [], []
    sources = [x["node"] for x in nd]
    changed = True
    flagged = set()
    while changed:
        changed = False
        exprs = list(sources)
        for n in ast.walk(node):
            if isinstance(n, ast.Name) and isinstance(n.ctx, ast.Load) and n.id in tainted:
                exprs.append(n)
        for x in exprs:
            if in_logger(x):
                continue
            s = stmt_of(x)
            if isinstance(s, ast.Assign) and len(s.targets) == 1 and isinstance(s.targets[0], ast.Name):
                if s.targets[0].id not in tainted:
                    tainted.add(s.targets[0].id)
                    changed = True
                continue
            if isinstance(s, ast.Expr) and s.value is x:
                continue        # value discarded
            key = (s.lineno, _txt(s, 80))
            if key not in flagged:
                flagged.add(key)
                bad.append(f"line {s.lineno}: value of a non-deterministic call reaches `{_txt(s, 80)}`")
    for x in nd:
        obs.append(f"line {x['line']}: {x['call']}()")
    return bad, obs


def file_report(fi):
    """for every output-file write: is the written expression the returned one (same variable, not rebound / stored into
    between the write and the return; or the stated projection `<returned>.values`, `np.column_stack`...)?
    -> list of dicts {line, writer, written, returned, verdict, why}"""
    out = []
    st = fi.state
    rets = [(ln, v) for ln, v in st.get("returns", [])]
    log = st.get("assign_log", [])
    for w in st.get("file_writes", []):
        val = w["value"]
        wtxt = _txt(val) if val is not None else "?"
        rec = {"line": w["line"], "writer": w["writer"], "written": wtxt}
        # returns reachable after the write (textually later; same or enclosing block), else the nearest later return
        later = [(ln, v) for ln, v in rets if ln >= w["line"]]
        if not later:
            rec.update(verdict="no-return-after-write", returned=None)
            out.append(rec)
            continue
        ln, rv = later[0]
        rec["returned"] = _txt(rv) if rv is not None else "None"
        if rv is None or (isinstance(rv, ast.Constant) and rv.value is None):
            rec.update(verdict="returns-None", why="the function hands its result only to the file")
            out.append(rec)
            continue
        names_w = {n.id for n in ast.walk(val) if isinstance(n, ast.Name)} if val is not None else set()
        rel = _relation(val, rv, fi.node)
        # no rebinding / store into the written variable between the write and the return
        touched = [(l, nm, how) for (l, nm, how) in log if w["line"] < l <= ln and nm in names_w]
        if rel and not touched:
            rec.update(verdict="same", why=rel)
        elif rel:
            rec.update(verdict="modified-between-write-and-return", why=f"{touched[0][1]} {touched[0][2]} at line {touched[0][0]}")
        else:
            rec.update(verdict="different-expression", why="the written expression is not the returned variable nor a listed projection of it")
        out.append(rec)
    return out


def _relation(w, r, fnode=None):
    """syntactic relation between written expression w and returned expression r"""
    if w is None:
        return None
    wt, rt = _txt(w, 400), _txt(r, 400)
    if wt == rt:
        return "identical expression"
    # returned tuple/list containing the written variable
    if isinstance(r, (ast.Tuple, ast.List)) and any(_txt(x, 400) == wt for x in r.elts):
        return "element of the returned tuple"
    relts = [_txt(x, 400) for x in r.elts] if isinstance(r, (ast.Tuple, ast.List)) else []
    # values stored into the returned container:  r[key] = X  (X counts as a part of the returned value)
    parts = []
    if fnode is not None and isinstance(r, ast.Name):
        for n in ast.walk(fnode):
            if isinstance(n, ast.Assign) and len(n.targets) == 1 and isinstance(n.targets[0], ast.Subscript) and \
                    isinstance(n.targets[0].value, ast.Name) and n.targets[0].value.id == r.id:
                parts.append(_txt(n.value, 400))
    if wt in parts:
        return f"{wt} is stored into the returned {rt}"
    # value-preserving projection of the returned value: <r>.values, <r>.to_numpy(), <r>[:, np.newaxis] (full slices / new axes only)
    def full_index(sl):
        xs = sl.elts if isinstance(sl, ast.Tuple) else [sl]
        for x in xs:
            if isinstance(x, ast.Slice) and x.lower is None and x.upper is None and x.step is None:
                continue
            if (isinstance(x, ast.Constant) and x.value is None) or _txt(x) in ("np.newaxis", "numpy.newaxis", "Ellipsis", "..."):
                continue
            return False
        return True
    b = w
    while True:
        if isinstance(b, ast.Attribute) and b.attr in ("values", "T"):
            b = b.value
        elif isinstance(b, ast.Subscript) and full_index(b.slice):
            b = b.value
        elif isinstance(b, ast.Call) and isinstance(b.func, ast.Attribute) and b.func.attr in ("to_numpy",) and not b.args:
            b = b.func.value
        else:
            break
        bt = _txt(b, 400)
        if bt == rt:
            return f"projection {wt} of the returned {rt}"
        if bt in relts:
            return f"projection {wt} of the element {bt} of the returned tuple"
        if bt in parts:
            return f"projection {wt} of {bt}, which is stored into the returned {rt}"
    return None


def analyse_package(repo, subpackages=SUBPACKAGES):
    return Package(repo, subpackages).analyse()
