"""symbolic backend namespace for specs: everything in pyvc.sv plus the big operators"""
from .sv import *  # noqa: F401,F403
from .sv import PI, cmp, ite, and_, or_, not_, implies  # noqa: F401
from .sigma import Count, Sum  # noqa: F401
