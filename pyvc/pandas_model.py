"""pandas contracts (ASSUMED, trusted base).

A DataFrame is a record of equally long columns: heap cell kind "df" with data
``{"cols": {name: Arr (1-D, own heap cell)}, "order": [names], "n": length}``.  Row labels are the default
RangeIndex (the repository never relies on another index for the functions under contract, except
``vector_fft_corr`` which is outside the model).  Semantics assumed:

* ``pd.DataFrame(2-D array, columns=names)``: column j is a copy of ``data[:, j]``;  ``pd.DataFrame(dict)``: one column per key;
  ``pd.DataFrame(0, index=range(n), columns=names)``: n rows of integer zeros.
* ``df[name]`` is the column (a Series); ``df[name] = v`` replaces/adds the column with the values of ``v`` (length n, or a
  scalar broadcast); ``df[name] op= v`` equals ``df[name] = df[name] op v`` (performed in place on the column cell when the
  dtype does not change, which has the same values);  ``df[[names]]`` is a new frame of copies.
* ``df.join(other)``: columns of ``other`` appended, rows paired by position (both have the default index and equal length;
  the equal-length requirement is a side obligation).
* ``df.round(k)``: element-wise decimal rounding of float columns (uninterpreted ``round<k>`` with the axioms of axioms.py).
* ``<df or series>.groupby(keys).mean().reset_index()``: one row per distinct key, keys ascending; each other column the mean
  over the group.  The result has a fresh symbolic length G and key column K(g) (uninterpreted), the value at row g is
  ``sum_j [keys_j == K(g)] v_j / sum_j [keys_j == K(g)]``; facts available to contracts through the cell's meta:
  ("groupby", keys reader, n, K, G).
* ``df.values`` / ``series.values``: a read-only array (pandas 3 copy-on-write: the returned array is not writeable).
* ``df.to_csv(path, float_format=..., index=False)``: file-write event ``("to_csv", path, {name: column snapshot}, order, float_format)``
  appended to ``cur().trace``; ``np.save``/``np.savetxt`` events are produced in lib.py.
* ``pd.Series(a).map(dict).values``: element-wise dictionary lookup (every value must be a key: side obligation ``map-key``).
"""
from __future__ import annotations

import z3

from . import arr as A
from . import sv
from .sigma import Sum
from .state import Content, cur
from .sv import SV, EngineError, is_conc, ite, norm


def _ref(sid):
    from .interp import Ref
    return Ref(sid, "df")


def new_df(cols, order, n):
    """cols: {name: Arr 1-D}; columns are copied into fresh cells"""
    own = {}
    for name in order:
        c = cols[name]
        own[name] = A.copy(c) if isinstance(c, A.Arr) else c
    return _ref(cur().alloc(Content("df", {"cols": own, "order": list(order), "n": n})))


def df_content(df):
    return cur().heap[df.sid].data


def _series(a, name=None):
    from .lib import SeriesVal
    return SeriesVal(a, name)


def _as_col(interp, v, n):
    """value assigned to a column -> 1-D Arr of length n"""
    from .lib import SeriesVal, _arr
    v = norm(v)
    if isinstance(v, SeriesVal):
        v = v.arr
    if isinstance(v, A.Masked):
        raise EngineError("masked selection assigned to a DataFrame column")
    if sv.is_scalar(v):
        return A.new_arr((n,), lambda idx, v=v: v, A.scalar_dtype(v))
    a = _arr(v, interp)
    if a.ndim != 1:
        raise EngineError("column value must be 1-D")
    A.require_dim_eq(a.shape[0], n, "dataframe-column-length")
    return A.copy(a)


def dataframe_ctor(interp, data=None, index=None, columns=None, dtype=None, **kw):
    from .interp import Ref
    from .lib import RangeVal, SeriesVal, _arr
    data = norm(data)
    if isinstance(data, Ref) and data.kind == "dict":
        d = data.content
        order = list(d.keys())
        cols = {}
        n = None
        for k in order:
            a = d[k]
            a = a.arr if isinstance(a, SeriesVal) else _arr(a, interp)
            if a.ndim != 1:
                raise EngineError("DataFrame(dict) with non 1-D value")
            if n is None:
                n = a.shape[0]
            else:
                A.require_dim_eq(a.shape[0], n, "dataframe-column-length")
            cols[k] = a
        return new_df(cols, order, n)
    names = None
    if columns is not None:
        names = [x for x in interp.iter_concrete(columns)]
    if sv.is_scalar(data) and data is not None:
        if index is None or names is None:
            raise EngineError("DataFrame(scalar) needs index and columns")
        index = norm(index)
        if isinstance(index, RangeVal):
            n = index.length() if not index.concrete() else len(index.to_range())
        else:
            n = len(interp.iter_concrete(index))
        if not is_conc(n):
            cur().require(sv.cmp(">=", n, 0), "nonneg-dim")
        dt = A.scalar_dtype(data)
        cols = {k: A.new_arr((n,), lambda idx, v=data: v, dt) for k in names}
        return new_df(cols, names, n)
    a = _arr(data, interp)
    if a.ndim == 1:
        names = names or [0]
        if len(names) != 1:
            raise PyValueError("Shape of passed values")
        return new_df({names[0]: a}, names, a.shape[0])
    if a.ndim != 2:
        raise EngineError("DataFrame of rank > 2")
    k = A.conc_dim(a.shape[1], "number of DataFrame columns")
    if names is None:
        names = list(range(k))
    if len(names) != k:
        from .interp import PyRaise
        raise PyRaise("ValueError", f"Shape of passed values is (n, {k}), indices imply (n, {len(names)})")
    r = a.reader()
    cols = {}
    for j, nm in enumerate(names):
        cols[nm] = A.new_arr((a.shape[0],), lambda idx, j=j, r=r: r((idx[0], j)), a.dtype)
    return new_df(cols, names, a.shape[0])


def PyValueError(msg):
    from .interp import PyRaise
    return PyRaise("ValueError", msg)


def series_ctor(interp, data=None, **kw):
    from .lib import _arr
    return _series(A.copy(_arr(data, interp)))      # pandas 3 (copy-on-write): the constructor copies a numpy array


def df_attr(interp, df, name):
    from .interp import BoundLib
    c = df_content(df)
    if name == "values":
        return df_values(df)
    if name == "columns":
        from .interp import new_list
        return new_list(list(c["order"]))
    if name == "shape":
        return (c["n"], len(c["order"]))
    if name == "loc":
        return BoundLib("df.loc", df)
    if name == "index":
        # every frame of the model carries the default RangeIndex (module docstring)
        from .lib import RangeVal
        return RangeVal(0, c["n"])
    if name in c["cols"] and name not in ("round", "join", "groupby", "to_csv", "mean", "copy", "astype"):
        return _series(c["cols"][name], name)
    return BoundLib("df." + name, df)


def df_values(df):
    c = df_content(df)
    order = c["order"]
    readers = [c["cols"][k].reader() for k in order]
    dt = A.promote(*[c["cols"][k].dtype for k in order])

    def fn(idx):
        j = idx[1]
        if is_conc(j):
            return A._cast(readers[int(j)]((idx[0],)), dt)
        return A._pick([A._cast(r((idx[0],)), dt) for r in readers], j)
    return A.new_arr((c["n"], len(order)), fn, dt, readonly=True)


def series_attr(interp, s, name):
    from .interp import BoundLib
    if name == "values":
        a = A.copy(s.arr)
        cur().heap[a.sid].meta["readonly"] = True
        return a
    if name in ("shape", "dtype", "size"):
        return interp.lib.arr_attr(interp, s.arr, name)
    if name == "loc" or name == "iloc":
        return BoundLib("series.loc", s)
    return BoundLib("series." + name, s)


def df_getitem(interp, df, key):
    from .interp import Ref
    c = df_content(df)
    if isinstance(key, Ref) and key.kind == "list":
        names = list(key.content)
        for k in names:
            if k not in c["cols"]:
                raise interp_keyerror(k)
        return new_df({k: c["cols"][k] for k in names}, names, c["n"])
    k = interp.dict_key(key)
    if isinstance(k, (str, int)) and k in c["cols"]:
        # copy-on-write: the Series keeps the values the column has NOW (a later df[k] op= v does not reach it, nor does a
        # store through the Series reach the frame)
        return _series(A.copy(c["cols"][k]), k)
    raise interp_keyerror(key)


def interp_keyerror(k):
    from .interp import PyRaise
    return PyRaise("KeyError", repr(k))


def df_setitem(interp, df, key, value):
    c = df_content(df)
    k = interp.dict_key(key)
    if not isinstance(k, (str, int)):
        raise EngineError("DataFrame item assignment with a non-scalar key")
    col = _as_col(interp, value, c["n"])
    cols = dict(c["cols"])
    order = list(c["order"])
    if k not in cols:
        order.append(k)
    cols[k] = col
    cell = cur().heap[df.sid]
    cur().heap[df.sid] = Content("df", {"cols": cols, "order": order, "n": c["n"]}, cell.meta)
    cur().events.append(("df-setcol", df.sid, k, cur().where, list(cur().pc)))


def df_aug_assign(interp, df, key, op, rhs):
    """df[key] op= rhs.  Same values as df[key] = df[key] op rhs; done in place on the column's own cell when the
    column dtype is unchanged (so that loops accumulate into an ordinary array cell)."""
    from .lib import SeriesVal
    c = df_content(df)
    k = interp.dict_key(key)
    if k not in c["cols"]:
        raise interp_keyerror(k)
    col = c["cols"][k]
    r = norm(rhs)
    if isinstance(r, SeriesVal):
        r = r.arr
    rdt = r.dtype if isinstance(r, A.Arr) else A.scalar_dtype(r)
    res_dt = "float" if op == "/" else A.promote(col.dtype, rdt)
    if res_dt == col.dtype and op != "/" or (op == "/" and col.dtype in ("float", "complex")):
        A.inplace(col, op, r)
        return
    df_setitem(interp, df, k, interp.binop(op, col, r))


def pandas_method(interp, kind, recv, meth, args, kwargs):
    if kind == "df":
        return df_method(interp, recv, meth, args, kwargs)
    if kind == "series":
        return series_method(interp, recv, meth, args, kwargs)
    if kind == "groupby":
        return groupby_method(interp, recv, meth, args, kwargs)
    raise EngineError(f"{kind}.{meth}")


class GroupBy:
    def __init__(self, src, keys, names):
        self.src, self.keys, self.names = src, keys, names   # src: {name: Arr}, keys: Arr, names: order of value columns


class GroupMean:
    def __init__(self, gb):
        self.gb = gb


def _round_cols(cols, order, k):
    out = {}
    for nm in order:
        a = cols[nm]
        if a.dtype == "float":
            r = a.reader()
            out[nm] = A.new_arr(a.shape, lambda idx, r=r: sv.round_dec(r(idx), k), "float")
        elif a.dtype == "complex":
            r = a.reader()
            out[nm] = A.new_arr(a.shape, lambda idx, r=r: sv.round_dec(r(idx), k), "complex")
        else:
            out[nm] = a
    return out


def df_method(interp, df, meth, args, kwargs):
    from .lib import SeriesVal
    c = df_content(df)
    if meth == "to_csv":
        if kwargs.get("index", True) is not False:
            raise EngineError("DataFrame.to_csv with the index column (only index=False is modelled)")
        path = args[0] if args else kwargs.get("path_or_buf")
        snap = {k: A.copy(v) for k, v in c["cols"].items()}
        cur().trace.append(("to_csv", path, snap, list(c["order"]), kwargs.get("float_format"), c["n"], cur().where))
        return None
    if meth == "join":
        other = args[0]
        oc = df_content(other)
        A.require_dim_eq(c["n"], oc["n"], "join-equal-length")
        order = list(c["order"])
        cols = dict(c["cols"])
        for k in oc["order"]:
            if k in cols:
                raise PyValueError(f"columns overlap: {k}")
            cols[k] = oc["cols"][k]
            order.append(k)
        return new_df(cols, order, c["n"])
    if meth == "round":
        k = int(norm(args[0])) if args else 0
        return new_df(_round_cols(c["cols"], c["order"], k), c["order"], c["n"])
    if meth == "copy":
        return new_df(c["cols"], c["order"], c["n"])
    if meth == "astype":
        dt = A.norm_dtype(args[0].name if hasattr(args[0], "name") else args[0])
        return new_df({k: A.astype(v, dt) for k, v in c["cols"].items()}, c["order"], c["n"])
    if meth == "groupby":
        keys = args[0]
        if isinstance(keys, SeriesVal):
            kname, keys = keys.name, keys.arr
        elif isinstance(keys, str):
            kname, keys = keys, c["cols"][keys]
        else:
            raise EngineError("groupby key")
        A.require_dim_eq(keys.shape[0], c["n"], "groupby-length")
        names = [k for k in c["order"]]
        return GroupBy({k: c["cols"][k] for k in names}, (kname, keys), names)
    if meth == "mean":
        from .interp import new_dict
        return new_dict({k: A.reduce_mean(c["cols"][k]) for k in c["order"]})
    raise EngineError(f"DataFrame.{meth}")


def series_method(interp, s, meth, args, kwargs):
    from .interp import Ref
    from .lib import SeriesVal
    if meth == "map":
        d = args[0]
        if not (isinstance(d, Ref) and d.kind == "dict"):
            raise EngineError("Series.map with a non-dict")
        items = list(d.content.items())
        if not items:
            raise EngineError("Series.map with an empty dict")
        r = s.arr.reader()
        keys = [k for k, _ in items]
        n = s.arr.shape[0]
        # every element must be a key (otherwise pandas yields NaN): side obligation at a symbolic position
        t = sv.fresh_int("mk")
        cur().require(sv.implies(sv.and_(sv.cmp(">=", t, 0), sv.cmp("<", t, n)), sv.or_(*[sv.cmp("==", r((t,)), k) for k in keys])), "map-key")

        def fn(idx):
            x = r(idx)
            out = norm(items[-1][1])
            for k, v in reversed(items[:-1]):
                out = ite(sv.cmp("==", x, k), norm(v), out)
            return out
        dts = [A.scalar_dtype(norm(v)) for _, v in items]
        return _series(A.new_arr((n,), fn, A.promote(*dts)), s.name)
    if meth == "groupby":
        keys = args[0]
        if isinstance(keys, SeriesVal):
            kname, keys = keys.name, keys.arr
        else:
            raise EngineError("groupby key")
        A.require_dim_eq(keys.shape[0], s.arr.shape[0], "groupby-length")
        return GroupBy({s.name: s.arr}, (kname, keys), [s.name])
    if meth in ("mean", "sum", "min", "max", "copy", "astype", "any", "all"):
        r = interp.lib.arr_method(interp, s.arr, meth, args, kwargs)
        return _series(r, s.name) if isinstance(r, A.Arr) else r
    if meth == "round":
        k = int(norm(args[0])) if args else 0
        return _series(_round_cols({"x": s.arr}, ["x"], k)["x"], s.name)
    if meth == "to_numpy":
        return series_attr(interp, s, "values")
    raise EngineError(f"Series.{meth}")


def groupby_method(interp, recv, meth, args, kwargs):
    if isinstance(recv, GroupBy) and meth == "mean":
        return GroupMean(recv)
    if isinstance(recv, GroupMean) and meth == "reset_index":
        return group_mean_frame(recv.gb)
    raise EngineError(f"groupby.{meth}")


_gcount = [0]


def group_mean_frame(gb):
    """ASSUMED contract of groupby(keys).mean().reset_index(): see module docstring"""
    _gcount[0] += 1
    tag = sv.fresh_name("grp")
    kname, keys = gb.keys
    kr = keys.reader()
    n = keys.shape[0]
    G = sv.integer(f"G_{tag}")
    Kf = z3.Function(f"K_{tag}", z3.IntSort(), z3.RealSort())
    st = cur()
    st.assume(sv.cmp(">=", G, 0))
    st.assume(sv.implies(sv.cmp(">=", n, 1), sv.cmp(">=", G, 1)))
    st.assume(sv.cmp("<=", G, n)) if not is_conc(n) or True else None

    def K(g):
        return SV(Kf(sv.znum(g)))
    cols = {kname: A.new_arr((G,), lambda idx: K(idx[0]), "float")}
    order = [kname]
    for nm in gb.names:
        if nm == kname:
            continue
        vr = gb.src[nm].reader()
        dt = gb.src[nm].dtype

        def fn(idx, vr=vr):
            kg = K(idx[0])
            num = Sum(0, n, lambda t: ite(sv.cmp("==", kr((t,)), kg), lambda: sv.to_real(vr((t,))) if dt != "complex" else vr((t,)), 0))
            den = Sum(0, n, lambda t: ite(sv.cmp("==", kr((t,)), kg), 1, 0))
            return sv.div(num, den)
        cols[nm] = A.new_arr((G,), fn, "float" if dt != "complex" else "complex")
        order.append(nm)
    df = new_df(cols, order, G)
    cur().heap[df.sid].meta["groupby"] = {"keys": kr, "n": n, "K": K, "G": G, "key_name": kname,
                                          "values": {nm: gb.src[nm].reader() for nm in gb.names if nm != kname}}
    return df


def df_loc_getitem(interp, df, key):
    if not (isinstance(key, tuple) and len(key) == 2):
        raise EngineError("DataFrame.loc key")
    row, col = key
    c = df_content(df)
    k = interp.dict_key(col)
    if k not in c["cols"]:
        raise interp_keyerror(k)
    return A.getitem(c["cols"][k], row)


def summarise_df_cell(interp, sid, pre_cell, post_cell, heap_h, st1, iz, lo, hi, hv_consts, hv_funcs):
    """a DataFrame cell changed inside a symbolic loop: only allowed if the set of column cells is unchanged
    (in-place accumulation goes to the column's own array cell, which is summarised as an array)"""
    a, b = pre_cell.data, post_cell.data
    if a["order"] == b["order"] and all(a["cols"][k].sid == b["cols"][k].sid for k in a["order"]):
        return lambda k: pre_cell
    raise EngineError("DataFrame columns replaced inside a symbolic loop")


def df_cell_eq_goals(a, b, eq):
    da, db = a.data, b.data
    if da["order"] != db["order"]:
        return [z3.BoolVal(False)]
    return [z3.BoolVal(all(da["cols"][k].sid == db["cols"][k].sid for k in da["order"]))]
