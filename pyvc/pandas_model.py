"""pandas contracts (ASSUMED): a DataFrame is a record of equally long columns — filled in with C03."""
from __future__ import annotations

from .sv import EngineError


def df_attr(interp, df, name):
    raise EngineError(f"DataFrame.{name}")


def series_attr(interp, s, name):
    raise EngineError(f"Series.{name}")


def df_getitem(interp, df, key):
    raise EngineError("DataFrame[...]")


def df_setitem(interp, df, key, value):
    raise EngineError("DataFrame[...] = ")


def pandas_method(interp, kind, recv, meth, args, kwargs):
    raise EngineError(f"{kind}.{meth}")


def summarise_df_cell(*a, **k):
    raise EngineError("DataFrame in loop")


def df_cell_eq_goals(a, b, eq):
    raise EngineError("DataFrame equality")
