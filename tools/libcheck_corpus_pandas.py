"""libcheck corpus: pandas (pyvc/pandas_model.py, libext C10 / C15 / C19) — construction, columns, arithmetic, join / concat, round,
groupby().mean().reset_index() (relational), .values aliasing / writeability, Series.map, to_csv."""
from libcheck_corpus import AL, B, C, D, E, F, Iv, OUT, P, T

F2 = F([[1.0, -2.0, 3.5], [0.5, 0.0, -1.5], [4.0, 5.0, 6.0], [7.5, 8.5, 9.5]])
I2 = Iv([[1, 2], [3, 4], [5, 6]])
FA = F([1.5, -2.5, 0.5, 3.25])
IA = Iv([3, -2, 0, 7])


def register(rng):
    register_wide(rng)
    E("pd.DataFrame:2d-columns", "a", "pd.DataFrame(a, columns=['x', 'y', 'z'])", [[F2], [F([], shape=(0, 3))], [Iv([[1, 2, 3]])]], ["pd.DataFrame"], cat="pandas")
    E("pd.DataFrame:2d-columns-split", "a", "pd.DataFrame(a, columns='x y z'.split())", [[F2]], ["pd.DataFrame", "str.split"], cat="pandas")
    E("pd.DataFrame:2d-default-columns", "a", "pd.DataFrame(a)", [[I2]], ["pd.DataFrame"], cat="pandas")
    E("pd.DataFrame:1d", "a", "pd.DataFrame(a, columns=['r'])", [[FA]], ["pd.DataFrame"], cat="pandas")
    E("pd.DataFrame:wrong-number-of-columns", "a", "pd.DataFrame(a, columns=['x', 'y'])", [[F2]], ["pd.DataFrame"], cat="pandas")
    E("pd.DataFrame:dict", "a, b", "pd.DataFrame({'t': a, 'v': b})", [[FA, IA], [F([]), F([])], [FA, [1, 2, 3, 4]]], ["pd.DataFrame"], cat="pandas")
    E("pd.DataFrame:dict-length-mismatch", "a, b", "pd.DataFrame({'t': a, 'v': b})", [[FA, F([1.0])]], ["pd.DataFrame"], cat="pandas")
    E("pd.DataFrame:scalar-index-columns", "n", "pd.DataFrame(0, index=range(n), columns=['a', 'b'])", [[3], [0]], ["pd.DataFrame", "range"], cat="pandas")
    E("pd.DataFrame:scalar-float", "n", "pd.DataFrame(0.5, index=range(n), columns='a b'.split())", [[2]], ["pd.DataFrame"], cat="pandas")
    E("pd.DataFrame:column_stack-pattern", "t, v", "pd.DataFrame(np.column_stack((t, v)), columns=['t', 'a', 'b'])", [[F([0.0, 1.0, 2.0]), F([[1.0, 2.0], [3.0, 4.0], [5.0, 6.0]])]], ["pd.DataFrame", "np.column_stack"], cat="pandas")
    E("pd.DataFrame:attrs", "a", "(lambda df: (df.shape, len(df), list(df.columns), df.values, df['y'].values, list(df.index), df.values.shape))(pd.DataFrame(a, columns=['x', 'y', 'z']))", [[F2]], ["pd.DataFrame"], cat="pandas")
    P("df:setitem", "a, v", """
        df = pd.DataFrame(a, columns=['x', 'y', 'z'])
        df['w'] = v
        df['x'] = df['x'] * 2
        df['c'] = 1
        df['d'] = 0.5
        df['y'] = [1, 2, 3, 4]
        return df
    """, [[F2, F([10.0, 20.0, 30.0, 40.0])]], ["pd.DataFrame"], cat="pandas")
    P("df:setitem-length-mismatch", "a, v", "df = pd.DataFrame(a, columns=['x', 'y', 'z'])\ndf['w'] = v\nreturn df", [[F2, F([1.0, 2.0])]], ["pd.DataFrame"], cat="pandas")
    P("df:setitem-on-empty-frame", "v", "df = pd.DataFrame()\ndf['w'] = v\nreturn df", [[F([1.0, 2.0])]], ["pd.DataFrame"], cat="pandas")
    P("df:augmented-column", "a, v", """
        df = pd.DataFrame(0, index=range(len(v)), columns=['s', 'n'])
        df['s'] += v
        df['s'] += v * 2
        df['n'] += 1
        df['s'] /= 2
        df['n'] *= 3
        return df
    """, [[F2, F([1.0, 2.0, 3.0])]], ["pd.DataFrame"], cat="pandas")
    P("df:augmented-int-column-truediv", "n", "df = pd.DataFrame(0, index=range(n), columns=['s'])\ndf['s'] += 3\ndf['s'] /= 2\nreturn df", [[2]], ["pd.DataFrame"], cat="pandas")
    P("df:augmented-int-column-plus-float", "n, v", "df = pd.DataFrame(0, index=range(n), columns=['s'])\ndf['s'] += v\nreturn df", [[2, F([0.5, 1.5])]], ["pd.DataFrame"], cat="pandas")
    P("df:augmented-float-column-plus-complex", "n, v", "df = pd.DataFrame(0.0, index=range(n), columns=['s'])\ndf['s'] += v\nreturn df", [[2, C([1j, 2.0])]], ["pd.DataFrame"], cat="pandas")
    E("df:getitem", "a", "(lambda df: (df['x'], df[['z', 'x']], df['y'] + df['z'], df['x'] * 2, (df['x'] > 1).values, df['x'][1], df.loc[2, 'y'], df['x'].values[0]))(pd.DataFrame(a, columns=['x', 'y', 'z']))", [[F2]], ["pd.DataFrame"], cat="pandas")
    E("df:getitem-missing", "a", "pd.DataFrame(a, columns=['x', 'y', 'z'])['w']", [[F2]], ["pd.DataFrame"], cat="pandas")
    E("df:attribute-column", "a", "pd.DataFrame(a, columns=['x', 'y', 'z']).y", [[F2]], ["pd.DataFrame"], cat="pandas")
    E("df:arith", "a, b", "(lambda p, q: (p + q, p - q, p * q, p / 2, 2 * p, p / q, p * 0.5 + q))(pd.DataFrame(a, columns=['x', 'y']), pd.DataFrame(b, columns=['x', 'y']))",
      [[F([[1.0, 2.0], [3.0, 4.0]]), F([[0.5, 4.0], [2.0, -1.0]])]], ["pd.DataFrame"], cat="pandas")
    E("df:arith-different-columns", "a, b", "pd.DataFrame(a, columns=['x', 'y']) + pd.DataFrame(b, columns=['y', 'x'])", [[F([[1.0, 2.0]]), F([[10.0, 20.0]])]], ["pd.DataFrame"], cat="pandas")
    E("df:arith-different-length", "a, b", "pd.DataFrame(a, columns=['x']) + pd.DataFrame(b, columns=['x'])", [[F([[1.0], [2.0]]), F([[10.0]])]], ["pd.DataFrame"], cat="pandas")
    E("df:join", "a, b", "pd.DataFrame(a, columns=['x', 'y']).join(pd.DataFrame(b, columns=['u']))", [[F([[1.0, 2.0], [3.0, 4.0]]), F([[9.0], [8.0]])]], ["df.join", "pd.DataFrame"], cat="pandas")
    E("df:join-overlap", "a, b", "pd.DataFrame(a, columns=['x', 'y']).join(pd.DataFrame(b, columns=['x']))", [[F([[1.0, 2.0]]), F([[9.0]])]], ["df.join"], cat="pandas")
    E("df:join-different-length", "a, b", "pd.DataFrame(a, columns=['x']).join(pd.DataFrame(b, columns=['u']))", [[F([[1.0], [2.0], [3.0]]), F([[9.0], [8.0]])], [F([[1.0]]), F([[9.0], [8.0]])]], ["df.join"], cat="pandas")
    E("df:round", "a", "(pd.DataFrame(a, columns=['x', 'y']).round(6), pd.DataFrame(a, columns=['x', 'y']).round(8))", [[F([[0.12345678912, -3.999999996], [2.0, 1e-7]])]], ["df.round"], cat="pandas")
    E("df:round-int-and-complex-columns", "a, z", "pd.DataFrame({'i': a, 'z': z}).round(6)", [[Iv([1, 2]), C([0.12345678 + 0.98765432j, 1.0])]], ["df.round"], cat="pandas")
    E("df:round-3", "a", "pd.DataFrame(a, columns=['x']).round(3)", [[F([[0.12345]])]], ["df.round"], cat="pandas")
    E("series:round-map", "a", "(pd.Series(a).round(6).values, pd.Series(a).round(6))", [[F([0.12345678912, 2.0])]], ["pd.Series", "series.round"], cat="pandas")
    E("df:mean-copy-astype", "a", "(lambda df: (df.copy(), df.astype(float), df['x'].mean(), df['y'].sum(), df['x'].max(), df['x'].min()))(pd.DataFrame(a, columns=['x', 'y']))", [[I2]], ["pd.DataFrame", "series.mean", "series.sum"], cat="pandas")
    E("df:mean", "a", "dict(pd.DataFrame(a, columns=['x', 'y']).mean())", [[I2]], ["df.mean"], cat="pandas")
    E("series:map", "t, d", "(pd.Series(t).map(d).values, pd.Series(t).map(d))", [[Iv([1, 2, 2, 1]), D((1, 0.5), (2, 1.5))], [Iv([1, 2]), D((1, 7), (2, 8))]], ["pd.Series", "series.map"], cat="pandas")
    E("series:map-missing-key", "t, d", "pd.Series(t).map(d).values", [[Iv([1, 3]), D((1, 0.5), (2, 1.5))]], ["series.map"], cat="pandas")
    E("series:ops", "a", "(lambda s: (s * 2, s + s, s.values, len(s), s.sum(), s.mean(), s[1], (s > 0).values, s.shape))(pd.Series(a))", [[FA]], ["pd.Series"], cat="pandas")
    E("pd.concat:axis1", "a, b", "pd.concat([pd.DataFrame(a, columns=['x', 'y']), pd.DataFrame(b, columns=['u'])], axis=1)", [[F([[1.0, 2.0], [3.0, 4.0]]), F([[9.0], [8.0]])]], ["pd.concat"], cat="pandas", props=["C15"])
    E("pd.concat:axis1-values", "a, b", "(lambda r: (r.values, r.shape, list(r.columns)))(pd.concat([pd.DataFrame(a, columns=['x', 'y']), pd.DataFrame(b, columns=['u'])], axis=1))", [[F([[1.0, 2.0], [3.0, 4.0]]), F([[9.0], [8.0]])]], ["pd.concat"], cat="pandas", props=["C15"])
    E("pd.concat:axis1-different-length", "a, b", "pd.concat([pd.DataFrame(a, columns=['x']), pd.DataFrame(b, columns=['u'])], axis=1)", [[F([[1.0], [3.0]]), F([[9.0]])]], ["pd.concat"], cat="pandas", props=["C15"])
    E("pd.concat:axis0", "a, b", "pd.concat([pd.DataFrame(a, columns=['x']), pd.DataFrame(b, columns=['x'])])", [[F([[1.0]]), F([[9.0]])]], ["pd.concat"], cat="pandas", props=["C15"])
    # groupby: relational (fresh length G, key function K)
    GB = [[F([0.5, 1.0, 0.5, 2.0, 1.0, 0.5]), F([1.0, 2.0, 3.0, 4.0, 6.0, 8.0]), F([10.0, 20.0, 30.0, 40.0, 50.0, 60.0])],
          [F([3.0, 1.0, 2.0]), F([1.0, 2.0, 3.0]), F([0.5, 0.25, 0.125])], [F([1.0, 1.0]), F([1.0, 3.0]), F([2.0, 4.0])], [F([2.0]), F([1.0]), F([2.0])]]
    E("groupby:mean-reset_index", "q, s, t", "pd.DataFrame({'q': q, 'S': s, 'T': t}).groupby('q').mean().reset_index()", GB, ["df.groupby", "groupby.mean", "groupby.reset_index"], cat="pandas", kind="rel")
    E("groupby:by-series", "q, s, t", "(lambda df: df.groupby(df['q']).mean().reset_index())(pd.DataFrame({'q': q, 'S': s, 'T': t}))", GB, ["df.groupby", "groupby.mean", "groupby.reset_index"], cat="pandas", kind="rel")
    E("groupby:series-by-series", "q, s, t", "(lambda df: df['S'].groupby(df['q']).mean().reset_index())(pd.DataFrame({'q': q, 'S': s, 'T': t}))", GB, ["series.groupby", "groupby.mean", "groupby.reset_index"], cat="pandas", kind="rel")
    E("groupby:rounded-keys-pattern", "q, s", "(lambda df: df.round(6).groupby('q').mean().reset_index())(pd.DataFrame({'q': q, 'S': s}))", [[F([0.4999996, 0.5000004, 1.2345671, 1.2345674, 0.5]), F([1.0, 2.0, 3.0, 4.0, 6.0])]],
      ["df.groupby", "df.round", "groupby.mean", "groupby.reset_index"], cat="pandas", kind="rel")
    E("groupby:empty", "q, s", "pd.DataFrame({'q': q, 'S': s}).groupby('q').mean().reset_index()", [[F([]), F([])]], ["df.groupby"], cat="pandas", kind="rel")
    E("groupby:int-values", "q, s", "pd.DataFrame({'q': q, 'S': s}).groupby('q').mean().reset_index()", [[F([1.0, 1.0, 2.0]), Iv([1, 2, 5])]], ["df.groupby"], cat="pandas", kind="rel")
    E("groupby:complex-values", "q, s", "pd.DataFrame({'q': q, 'S': s}).groupby('q').mean().reset_index()", [[F([1.0, 1.0, 2.0]), C([1j, 2.0, 1 + 1j])]], ["df.groupby"], cat="pandas", kind="rel")
    # aliasing / writeability
    AL("alias:pd.DataFrame(2d)", "pd.DataFrame(a, columns=['x', 'y'])", [[F([[1.0, 2.0], [3.0, 4.0]])]], ["pd.DataFrame"], mut="a[0, 0] = 99\nreturn b.values")
    AL("alias:pd.DataFrame(dict)", "pd.DataFrame({'x': a})", [[FA]], ["pd.DataFrame"], mut="a[0] = 99\nreturn b['x'].values")
    AL("alias:pd.Series(array)", "pd.Series(a)", [[FA], [IA]], ["pd.Series"], mut="a[0] = 99\nreturn b.values")
    AL("alias:pd.Series:store-through-series", "pd.Series(a)", [[FA]], ["pd.Series"], mut="b[0] = 99")
    P("alias:df-column-assignment", "a, v", "df = pd.DataFrame(a, columns=['x', 'y'])\ndf['w'] = v\nv[0] = 99\nreturn df", [[F([[1.0, 2.0], [3.0, 4.0]]), F([5.0, 6.0])]], ["pd.DataFrame"], cat="alias")
    P("alias:df.values:store", "a", "df = pd.DataFrame(a, columns=['x', 'y'])\nv = df.values\nv[0, 0] = 99\nreturn df", [[F([[1.0, 2.0], [3.0, 4.0]])]], ["pd.DataFrame"], cat="alias")
    P("alias:df.values:inplace-division", "a", "df = pd.DataFrame(a, columns=['x', 'y'])\nv = df.values\nv /= 2\nreturn df", [[F([[1.0, 2.0], [3.0, 4.0]])]], ["pd.DataFrame"], cat="alias")
    P("alias:df.values:mixed-dtypes-store", "a, t", "df = pd.DataFrame({'x': a, 'i': t})\nv = df.values\nv[0, 0] = 99\nreturn df, v", [[F([1.0, 2.0]), Iv([1, 2])]], ["pd.DataFrame"], cat="alias",
      limitation="pandas 3 returns a fresh WRITEABLE array from .values of a frame with several dtypes (consolidation copy) and a read-only view for a single block; the model says read-only always (pyvc/pandas_model.py docstring): a store is reported as raising")
    P("alias:series.values:store", "a", "df = pd.DataFrame(a, columns=['x', 'y'])\nv = df['x'].values\nv[0] = 99\nreturn df", [[F([[1.0, 2.0], [3.0, 4.0]])]], ["pd.DataFrame"], cat="alias")
    P("alias:df.values-then-source-changes", "a", "df = pd.DataFrame(a, columns=['x', 'y'])\nv = df.values\ndf['x'] = 0.0\nreturn v", [[F([[1.0, 2.0], [3.0, 4.0]])]], ["pd.DataFrame"], cat="alias")
    P("alias:df.values-copy-is-writable", "a", "df = pd.DataFrame(a, columns=['x', 'y'])\nv = df.values.copy()\nv[0, 0] = 99\nw = np.array(df.values)\nw /= 2\nreturn df, v, w", [[F([[1.0, 2.0], [3.0, 4.0]])]], ["pd.DataFrame", "arr.copy", "np.array"], cat="alias")
    P("alias:column-series-then-frame-changes", "a", "df = pd.DataFrame(a, columns=['x', 'y'])\ns = df['x']\ndf['x'] += 1\nreturn s.values, df", [[F([[1.0, 2.0], [3.0, 4.0]])]], ["pd.DataFrame"], cat="alias")
    P("alias:df-copy-independent", "a", "df = pd.DataFrame(a, columns=['x', 'y'])\nd2 = df.copy()\nd2['x'] += 1\nd3 = df[['x']]\nd3['x'] = 0.0\nreturn df, d2", [[F([[1.0, 2.0], [3.0, 4.0]])]], ["pd.DataFrame", "df.copy"], cat="alias")
    P("alias:df-second-name", "a", "df = pd.DataFrame(a, columns=['x', 'y'])\ne = df\ne['x'] += 1\ne['n'] = 5\nreturn df", [[F([[1.0, 2.0], [3.0, 4.0]])]], ["pd.DataFrame"], cat="alias")
    P("alias:join-result-independent", "a, b", "p = pd.DataFrame(a, columns=['x'])\nq = pd.DataFrame(b, columns=['u'])\nr = p.join(q)\nr['x'] += 1\nq['u'] = 0.0\nreturn p, q, r", [[F([[1.0], [2.0]]), F([[9.0], [8.0]])]], ["df.join"], cat="alias")
    # to_csv
    P("df.to_csv:float_format", "a, p", "pd.DataFrame(a, columns=['x', 'y']).to_csv(p, float_format='%.6f', index=False)\nreturn 0", [[F([[0.12345678912, -3.0], [2.0, 1e-7]]), OUT(".csv")]], ["df.to_csv"], cat="file")
    P("df.to_csv:int-column", "a, t, p", "df = pd.DataFrame({'t': t, 'x': a})\ndf.to_csv(p, float_format='%.6f', index=False)\nreturn 0", [[F([0.5, 1.5]), Iv([1, 2]), OUT(".csv")]], ["df.to_csv"], cat="file")
    P("df.to_csv:snapshot-at-call", "a, p", "df = pd.DataFrame(a, columns=['x', 'y'])\ndf.to_csv(p, float_format='%.6f', index=False)\ndf['x'] += 1\nreturn df", [[F([[1.0, 2.0]]), OUT(".csv")]], ["df.to_csv"], cat="file")
    P("df.to_csv:with-index", "a, p", "pd.DataFrame(a, columns=['x', 'y']).to_csv(p, float_format='%.6f')\nreturn 0", [[F([[1.0, 2.0]]), OUT(".csv")]], ["df.to_csv"], cat="file")


def register_wide(rng):
    """the wide-frame model of pyvc/libext/C15.py (frames whose number of columns is symbolic) is only reachable with symbolic-length
    arguments: the vector_fft_corr pattern on concrete data"""
    from libcheck_corpus import P
    q = F([[0.5, 0.0, 0.5], [0.0, 0.5, 0.5], [0.5, 0.5, 0.75]])
    corr = F([[1.0, 0.5, 0.25], [1.0, 0.75, 0.125]])      # (T, Q): column n of the wide frame = corr[:, n]
    tt = F([0.0, 1.0])
    P("wide:DataFrame(0,columns=arange,index=arange)", "q, c, t", """
        cal = pd.DataFrame(0, columns=np.arange(q.shape[0]), index=np.arange(c.shape[0]))
        return cal.shape, cal.values * 1.0
    """, [[q, corr, tt]], ["pd.DataFrame", "np.arange"], cat="pandas", props=["C15"], modes=["sym"], kind="rel")
    P("wide:DataFrame(0,...):dtype", "q, c", """
        cal = pd.DataFrame(0, columns=np.arange(q.shape[0]), index=np.arange(c.shape[0]))
        return cal.values
    """, [[q, corr]], ["pd.DataFrame"], cat="pandas", props=["C15"], modes=["sym"], kind="rel",
      limitation="pyvc/libext/C15.py models the block of a wide frame over the reals (class float); pandas keeps int64 for pd.DataFrame(0, ...) until a float column is assigned: values agree, the dtype class of .values does not (documented there)")
    P("wide:column-assignment-index-T-concat-round", "q, c, t", """
        cal = pd.DataFrame(0, columns=np.arange(q.shape[0]), index=np.arange(c.shape[0]))
        for n in range(3):
            cal[n] = c[:, n]
        cal.index = t
        head = pd.DataFrame(q, columns=['q0', 'q1', 'q'])
        final = pd.concat([head[['q0', 'q1'] + ['q']], cal.T], axis=1).round(8)
        return final.values, final.shape, cal.T.shape, cal.T.values
    """, [[q, corr, tt]], ["pd.DataFrame", "pd.concat", "df.round", "np.arange"], cat="pandas", props=["C15"], modes=["sym"], kind="rel")
    P("wide:concat-misaligned-index", "q, c, t", """
        cal = pd.DataFrame(0, columns=np.arange(q.shape[0]), index=np.arange(c.shape[0]))
        cal.index = t + 5
        head = pd.DataFrame(q, columns=['q0', 'q1', 'q'])
        return pd.concat([head, cal.T.T], axis=1).values
    """, [[q, corr, tt]], ["pd.concat"], cat="pandas", props=["C15"], modes=["sym"], kind="rel")
    P("wide:setitem-new-label", "q, c", """
        cal = pd.DataFrame(0, columns=np.arange(q.shape[0]), index=np.arange(c.shape[0]))
        cal[7] = c[:, 0]
        return cal.shape
    """, [[q, corr]], ["pd.DataFrame"], cat="pandas", props=["C15"], modes=["sym"], kind="rel")
    P("wide:values-store", "q, c", """
        cal = pd.DataFrame(0.5, columns=np.arange(q.shape[0]), index=np.arange(c.shape[0]))
        v = cal.values
        v[0, 0] = 9
        return cal.values
    """, [[q, corr]], ["pd.DataFrame"], cat="pandas", props=["C15"], modes=["sym"], kind="rel")
