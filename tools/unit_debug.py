import sys, os, time; sys.path.insert(0, os.path.dirname(os.path.dirname(os.path.abspath(__file__))))
os.environ.setdefault('PYVC_REPO', '/repo')
from pyvc import vc, interp
interp.REPO = os.environ["PYVC_REPO"]
import importlib
prop, case = sys.argv[1], sys.argv[2]
mod = importlib.import_module(f"contracts.{prop}")
uidx = int(sys.argv[3]) if len(sys.argv)>3 else 0
r = vc.run_unit(mod.UNITS[uidx], case, "quick")
print(r.get("error")); print(r.get("trace",""))
for o in r["obligations"]:
    print(o["status"], o["ms"], o["backends"], o["name"], (o.get("failed") or [{}])[0].get("reason",""))
