#!/usr/bin/env python3
"""Regenerates the generated section of DESIGN.md (between the GENERATED markers) from evidence/*.json, seeded/*/ and known_findings.json."""
import glob
import json
import os
import re

HERE = os.path.dirname(os.path.abspath(__file__))
ROOT = os.path.join(HERE, "..")
out = []
out.append("### V.1 Checks (from evidence/*.json of the last full run of each check)\n")
out.append("| id | functions under contract | units | obligations | discharged | back ends (obligations touched) | solver s | wall s |")
out.append("|---|---|---|---|---|---|---|---|")
for p in sorted(glob.glob(os.path.join(ROOT, "evidence", "C*.json"))):
    e = json.load(open(p))
    c = e["coverage"]
    be = ", ".join(f"{k}: {v}" for k, v in sorted(c.get("per_backend", {}).items()))
    out.append(f"| {e['property_id']} | {len(c.get('functions_under_contract', []))} | {len(c.get('units', []))} | {c['obligations']} | {c['discharged']} | {be} | {c.get('solver_time_s')} | {e.get('wall_s')} |")
out.append("")
out.append("### V.2 Genuine defects found by failing obligations and repaired in /repo (`fix:` commits)\n")
kf = json.load(open(os.path.join(ROOT, "known_findings.json")))
out.append("| property | commit | obligation that failed | what failed |")
out.append("|---|---|---|---|")
for en in kf["entries"]:
    if en["kind"] == "fixed":
        what = en["line"].split(en["commit"], 1)[-1].strip()
        out.append(f"| {en['property']} | {en['commit']} | `{en['obligation']}` | {what} |")
open_f = [en for en in kf["entries"] if en["kind"] == "finding"]
out.append("")
out.append(f"Recorded but unrepaired findings: {len(open_f)}." + ("" if not open_f else " " + "; ".join(f"{en['property']}: {en.get('what', en.get('line', ''))}" for en in open_f)))
out.append("")
out.append("### V.3 Independently seeded breaking changes (`seeded/<id>/`) and which check catches them\n")
out.append("Each change was written by a sub-agent that saw only the property text and its own scratch worktree; it was kept only after "
           "`tools/confirm_seed.sh` confirmed, in a scratch worktree, that the demonstration passes without and fails with the change and that "
           "the 75 baseline tests still pass with it.  `tools/eval_seed.sh` applies the patch to a scratch copy of the package and runs the quick check.\n")
out.append("| seed | what the change is | needs to manifest | check result | first failing obligations |")
out.append("|---|---|---|---|---|")
for d in sorted(glob.glob(os.path.join(ROOT, "seeded", "C*-*"))):
    sid = os.path.basename(d)
    try:
        meta = json.load(open(os.path.join(d, "meta.json")))
    except Exception:
        continue
    det = {}
    if os.path.exists(os.path.join(d, "detection.json")):
        det = json.load(open(os.path.join(d, "detection.json")))
    summ = re.sub(r"\s+", " ", str(meta.get("summary", "")))[:260]
    need = re.sub(r"\s+", " ", str(meta.get("needs_to_manifest", "")))[:200]
    if det:
        res = f"exit {det['exit']}, {det['violation_lines']} VIOLATION lines ({det['violations_with_failing_replay']} with a failing replay), {det['wall_s']} s" + ("" if det.get("detected") else " — **missed**")
        first = "; ".join(x.split(" status=")[0] for x in det.get("first_failed_obligations", [])[:2])
    else:
        res, first = "not evaluated yet", ""
    out.append(f"| {sid} | {summ} | {need} | {res} | `{first}` |")
out.append("")
out.append("### V.4 Independently written HARMLESS refactorings (`refactored/<id>/`): false-alarm test\n")
out.append("Behaviour-preserving maintenance changes (renaming, hoisting, helper extraction, equivalent numpy calls, loop <-> vectorised "
           "form, guard style) written by sub-agents that saw only the property text and a scratch worktree; each comes with a demonstration "
           "that passes with and without it.  `tools/eval_refactor.sh` applies the patch to a scratch copy and runs the quick check: the "
           "expected outcome is exit 0; a VIOLATION line would be a false alarm; exit 2 means the proof did not go through on the new text "
           "(engine limit) and no failing input exists.\n")
out.append("| id | what was refactored | check result |")
out.append("|---|---|---|")
nref = nok = nfa = 0
for d in sorted(glob.glob(os.path.join(ROOT, "refactored", "C*-r*"))):
    rid = os.path.basename(d)
    try:
        meta = json.load(open(os.path.join(d, "meta.json")))
        oc = json.load(open(os.path.join(d, "outcome.json")))
    except Exception:
        continue
    nref += 1
    nok += 1 if oc.get("exit") == 0 else 0
    nfa += 1 if oc.get("false_alarm") else 0
    summ = re.sub(r"\s+", " ", str(meta.get("summary", "")))[:300]
    res = f"exit {oc['exit']}, {oc['violation_lines']} VIOLATION lines, {oc['undecided_lines']} UNDECIDED lines, {oc['wall_s']} s"
    out.append(f"| {rid} | {summ} | {res} |")
out.append("")
out.append(f"{nref} refactorings: {nok} verified (exit 0), {nfa} false alarms, {nref - nok - nfa} undecided (exit 2).")
text = "\n".join(out) + "\n"
p = os.path.join(ROOT, "DESIGN.md")
s = open(p).read()
a, b = "<!-- GENERATED:BEGIN -->", "<!-- GENERATED:END -->"
if a in s and b in s:
    s = s[:s.index(a) + len(a)] + "\n" + text + s[s.index(b):]
    open(p, "w").write(s)
    print("DESIGN.md tables regenerated")
else:
    print(text)
