"""libcheck corpus: python scalars, operators, builtins, math / cmath (pyvc/sv.py, pyvc/lib.py BUILTINS)."""
from libcheck_corpus import CX, D, E, F, Iv, B, P, T


def register(rng):
    fl = [[2.7], [-2.7], [0.5], [-0.5], [3.0], [-0.0], [1e-9], [123456.789]]
    E("int:float", "x", "int(x)", fl, ["int"])
    E("int:bool-int", "x", "int(x)", [[True], [False], [7], [-7]], ["int"])
    E("int:str", "s", "int(s)", [["12"], ["-3"], [" 7 "], ["3.0"], ["abc"], [""]], ["int"])
    E("int:array-element", "a", "int(a[1])", [[F([1.9, -1.9, 2.0])], [Iv([4, 5])]], ["int"])
    E("int:0d-and-1-element", "a", "int(a)", [[F([2.5])], [F(3.5)], [F([1.0, 2.0])]], ["int"])
    E("float:values", "x", "float(x)", [[3], [True], [2.5], ["1.5"], ["1e-3"], ["-0.25"], ["abc"], [" 2 "]], ["float"])
    E("float:array-element", "a", "float(a[0])", [[Iv([3, 4])], [F([0.25])]], ["float"])
    E("round:half-even", "x", "round(x)", [[0.5], [1.5], [2.5], [-0.5], [-1.5], [2.4999], [2.5001], [7], [-3.5], [1e9 + 0.5]], ["round"])
    E("round:type", "x", "(round(x), round(x) + 1)", [[2.5], [3]], ["round"])
    E("round:6-8-decimals", "x", "(round(x, 6), round(x, 8))", [[0.12345678912], [-3.999999996], [2.0], [1e-7], [123.4567891234]], ["round"])
    E("round:6-decimals:tie", "x", "round(x, 6)", [[3.5e-6], [0.0000125], [1.0000005]], ["round"],
      limitation="A1 (floats are reals): a decimal tie k+0.5 units of 1e-6 is not a binary float; CPython rounds the binary value, the engine the exact decimal half-to-even")
    E("abs:scalars", "x", "abs(x)", [[-3], [2.5], [-2.5], [0], [CX(3.0, -4.0)]], ["abs"])
    E("abs:array", "a", "abs(a)", [[F([-1.5, 2.0, 0.0])], [Iv([-3, 4])]], ["abs"])
    E("min-max:args", "x, y, z", "(min(x, y, z), max(x, y, z), min(x, y), max(y, z))", [[3, 1, 2], [2.5, -1.0, 2.5], [1, 1.5, -2]], ["min", "max"])
    E("min-max:list", "L", "(min(L), max(L))", [[[3, 1, 2]], [[2.5]], [[-1.0, -1.5]], [[]]], ["min", "max"])
    E("min-max:array", "a", "(min(a), max(a))", [[F([3.0, 1.0, 2.0])], [Iv([5])]], ["min", "max"])
    E("sum:list", "L", "sum(L)", [[[1, 2, 3]], [[0.5, 0.25]], [[]], [[True, True, False]]], ["sum"])
    E("sum:list-start", "L, s", "sum(L, s)", [[[1, 2], 10], [[], 0.5]], ["sum"])
    E("sum:array", "a", "sum(a)", [[F([1.5, 2.5])], [Iv([1, 2, 3])], [F([[1.0, 2.0], [3.0, 4.0]])]], ["sum"])
    E("sum:generator", "a", "sum(x * x for x in a)", [[[1, 2, 3]], [F([0.5, 1.5])]], ["sum"])
    E("len:kinds", "L, a, s, d, t", "(len(L), len(a), len(s), len(d), len(t))",
      [[[1, 2, 3], F([[1.0, 2.0], [3.0, 4.0], [5.0, 6.0]]), "abc", D(("x", 1), ("y", 2)), T(1, 2)], [[], F([]), "", D(), T()]], ["len"])
    E("len:0d", "a", "len(a)", [[F(1.0)]], ["len"])
    E("range:forms", "n, a, b", "(list(range(n)), list(range(a, b)), list(range(b, a)), list(range(a, b, 2)), len(range(a, b)))", [[3, 1, 6], [0, -2, 2]], ["range", "list"])
    E("range:float-arg", "x", "list(range(x))", [[3.0]], ["range"])
    E("range:negative-half", "N", "list(range(-N // 2, N // 2))", [[4], [5], [1]], ["range", "list"])
    E("list-tuple:conversions", "a, t", "(list(a), tuple(a), list(t), tuple(t))", [[Iv([1, 2, 3]), T(4, 5)], [F([]), T()]], ["list", "tuple"])
    E("tuple:2d-array", "a", "tuple(a[0])", [[F([[1.0, 2.0], [3.0, 4.0]])]], ["tuple"])
    E("sorted:list", "L", "sorted(L)", [[[3, 1, 2]], [[2.5, -1.0, 2.5]], [["b", "a"]], [[]]], ["sorted"])
    E("set:len", "L", "(len(set(L)), len(set(L)) == 1)", [[[1, 1, 1]], [[1, 2, 1]], [[]], [[0.5, 0.5]]], ["set", "len"])
    E("set:array-diff", "a", "len(set(np.diff(a)))", [[Iv([0, 10, 20, 30])], [Iv([0, 10, 30])], [Iv([5])], [F([0.0, 0.5, 1.0])]], ["set", "len", "np.diff"], modes=["conc"])
    E("set:array-diff==1", "a", "len(set(np.diff(a))) == 1", [[Iv([0, 10, 20, 30])], [Iv([0, 10, 30])], [Iv([5])], [F([0.0, 0.5, 1.0])], [Iv([3, 4])], [Iv([7, 7, 7])]], ["set", "len", "np.diff"])
    E("isinstance:kinds", "x", "(isinstance(x, int), isinstance(x, float), isinstance(x, str), isinstance(x, list), isinstance(x, (int, float)), isinstance(x, bool))",
      [[3], [2.5], ["s"], [[1]], [True]], ["isinstance"])
    E("isinstance:ndarray", "x", "(isinstance(x, np.ndarray), isinstance(x, list))", [[F([1.0])], [[1.0]]], ["isinstance"])
    E("bool:truthiness", "x", "(bool(x), not x)", [[0], [2], [0.0], [-0.5], [""], ["a"], [[]], [[0]], [None]], ["bool"])
    P("enumerate-zip:loops", "a, b", """
        out = []
        for k, x in enumerate(a):
            out.append(k * x)
        for x, y in zip(a, b):
            out.append(x + y)
        for k, x in enumerate(b, 1):
            out.append(k)
        return out
    """, [[[1, 2, 3], [10, 20, 30]], [[], []], [[1.5], [2]]], ["enumerate", "zip", "list.append"])
    E("map:str-list", "L", "list(map(str, L))", [[[1, 22, -3]]], ["map", "str"])
    E("str:int-bool", "x", "str(x)", [[12], [-3], [True], ["s"]], ["str"])
    # operators
    E("op:floordiv-mod:int", "a, b", "(a // b, a % b)", [[7, 2], [-7, 2], [7, -2], [-7, -2], [6, 3], [0, 5], [5, 0]], [])
    E("op:floordiv-mod:float", "a, b", "(a // b, a % b)", [[7.5, 2], [-7.5, 2], [7.5, -2.0], [7, 2.0], [0.75, 0.25], [-0.5, 1.0]], [])
    E("op:floordiv:type", "a, b", "a // b / 2", [[7.5, 2], [7, 2]], [])
    E("op:truediv", "a, b", "a / b", [[7, 2], [-1, 3], [6, 3], [1.5, 0.5], [1, 0], [1.0, 0.0]], [])
    E("op:pow", "a, b", "a ** b", [[2, 3], [2, -1], [-2, 3], [2.0, 3], [4.0, 0.5], [9, 0.5], [2.0, 1.5], [0, 0], [0.0, 0], [2, 0.0], [-8.0, 2]], [])
    E("op:pow-half-symbolic", "a", "a ** 0.5 * a ** 0.5", [[2.0], [3.0], [0.25]], [])
    E("op:mixed-arith", "i, x", "(i + x, i * x, x - i, -x, +i, i - 1 * 2 + 3)", [[3, 0.5], [-2, -1.25]], [])
    E("op:compare-chain", "a, b, c", "(a < b < c, a <= b, a == b, a != c, a < b and b < c, a > b or b > c, not a < b)", [[1, 2, 3], [2, 2, 1], [0.5, 0.5, 0.5]], [])
    E("op:int-bitops", "a, b", "(a & b, a | b, ~a)", [[6, 3], [0, 5]], [])
    E("op:bool-arith", "p, q", "(p + q, p * 2, p and q, p or q)", [[True, False], [True, True]], [])
    E("op:ifexp", "x", "(1 if x > 0 else -1, x if x else None)", [[2], [-2], [0]], [])
    E("op:int-vs-float-equality", "i, x", "(i == x, i / 1 == x, 3 * x)", [[2, 2.0], [1, 0.5]], [])
    E("op:complex", "z, w", "(z + w, z * w, z / w, z - 1, 2 * z, z.real, z.imag, z.conjugate(), abs(z), z == w, -z)", [[CX(1.0, 2.0), CX(0.5, -1.5)], [CX(0.0, 1.0), CX(2.0, 0.0)]], [])
    E("op:complex-literal", "x", "(x * 1j, 1j * 1j, (1 + 2j) * x)", [[2.0], [0.5]], [])
    E("op:list-ops", "L, M", "(L + M, L * 2, M[0], L[-1], L[1:], len(L + M), 2 in L, 5 not in L)", [[[1, 2, 3], [4]]], [])
    P("op:list-mutation", "L", """
        M = L
        M.append(4)
        L2 = list(L)
        L2.append(5)
        L += [6]
        return L, M, L2
    """, [[[1, 2, 3]]], ["list.append", "list"])
    P("op:list-methods", "L", """
        i = L.index(3)
        L.insert(0, 9)
        x = L.pop()
        L.extend([7, 8])
        c = L.copy()
        c.sort()
        return i, x, L, c
    """, [[[5, 3, 1]]], ["list.index", "list.insert", "list.pop", "list.extend", "list.copy", "list.sort"])
    P("op:dict", "d", """
        d["z"] = 3
        ks = list(d.keys())
        vs = list(d.values())
        its = [k for k, v in d.items()]
        return d["x"], d.get("q", 0), d.get("x"), ks, vs, its, "x" in d, len(d)
    """, [[D(("x", 1), ("y", 2.5))]], ["dict.keys", "dict.values", "dict.items", "dict.get"])
    E("op:dict-missing-key", "d", "d['nope']", [[D(("x", 1))]], [])
    E("op:tuple-unpack", "t", "[a + b for a, b in [t, t]]", [[T(1, 2)]], [])
    E("op:comprehensions", "L", "([x * 2 for x in L if x > 1], [[i, j] for i in range(2) for j in range(2)], {k: k * k for k in L})", [[[1, 2, 3]]], [])
    E("op:string-ops", "s, t", "(s + t, s * 2, s[0], s[1:], s == t, s < t, s in s + t, len(s))", [["ab", "cd"]], [])
    # math / cmath
    E("math:sqrt", "x", "math.sqrt(x)", [[4.0], [2.0], [0.25], [9], [0], [12.0], [-1.0]], ["math.sqrt"])
    E("math:floor", "x", "math.floor(x)", [[2.7], [-2.7], [3.0], [-0.5], [5]], ["math.floor"])
    E("math:trig-exp-log", "x", "(math.cos(x), math.sin(x), math.exp(x), math.log(x + 2), math.cos(-x), math.sin(-x))", [[0.3], [0.0], [1.5], [-1.0]], ["math.cos", "math.sin", "math.exp", "math.log"])
    E("math:pi", "x", "(math.pi * x, np.pi * x, math.cos(math.pi), math.sin(math.pi / 2))", [[2.0], [0.5]], ["math.cos", "math.sin"])
    E("math:modf", "x", "math.modf(x)", [[2.75], [-2.75], [3.0], [0.5]], ["math.modf"])
    E("math:modf-sqrt-perfect-square", "k", "math.modf(math.sqrt(k))[0] == 0", [[4], [9], [2], [12], [0], [1], [50], [49]], ["math.modf", "math.sqrt"])
    E("cmath:exp", "x", "(cmath.exp(1j * x), cmath.exp(-1j * x), cmath.exp(x), cmath.exp(0))", [[0.5], [0.0], [-1.25]], ["cmath.exp"])
    E("cmath:exp-product", "x, y", "cmath.exp(1j * x) * cmath.exp(-1j * y)", [[0.5, 0.25], [1.0, 1.0]], ["cmath.exp"])
    E("time:time", "x", "time_ok(x)", [[1]], ["time.time"], header="import time\ndef time_ok(x):\n    t = time.time()\n    return x\n")
