#!/bin/bash
# usage: tools/eval_seed.sh <seed-id e.g. C05-2> [check-id, default = property of the seed]
# applies seeded/<id>/patch.diff to a scratch copy of the package, runs the property's quick check on it, records the outcome.
sid=$1; prop=${2:-${sid%%-*}}
here="$(cd "$(dirname "$0")/.." && pwd)"
src=${PYVC_REPO:-/repo}
tmp=$(mktemp -d /tmp/pyvc-seed.XXXXXX)
cp -r $src/PyMatterSim $tmp/PyMatterSim
if ! patch -s -p1 -d $tmp < $here/seeded/$sid/patch.diff >/dev/null 2>&1; then echo "$sid: PATCH DOES NOT APPLY to current /repo"; rm -rf $tmp; exit 9; fi
t0=$(date +%s)
out=$(cd $here && PYVC_REPO=$tmp PYVC_NO_EVIDENCE=1 PYVC_REPLAY_DIR=$tmp/replays ./check $prop --tier quick 2>&1); code=$?
t1=$(date +%s)
nviol=$(echo "$out" | grep -c "^VIOLATION")
nreal=$(echo "$out" | grep "^VIOLATION" | grep -vc "no-failing-input-found")
first=$(echo "$out" | grep "^FAILED-OBLIGATION" | head -3 | sed 's/^FAILED-OBLIGATION //' | tr '\n' ';')
echo "$sid: check=$prop exit=$code violations=$nviol (with failing replay: $nreal) wall=$((t1-t0))s first: $first"
python3 - "$here/seeded/$sid/detection.json" "$prop" "$code" "$nviol" "$nreal" "$((t1-t0))" "$first" <<'PY'
import json, sys
p, prop, code, nv, nr, wall, first = sys.argv[1:8]
json.dump({"check": f"./check {prop} --tier quick (on a scratch copy of the package with the change applied)", "exit": int(code), "violation_lines": int(nv),
           "violations_with_failing_replay": int(nr), "wall_s": int(wall), "first_failed_obligations": [x for x in first.split(';') if x],
           "detected": int(code) == 1 and int(nv) > 0}, open(p, 'w'), indent=1)
PY
rm -rf $tmp
