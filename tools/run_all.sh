#!/bin/bash
# tools/run_all.sh [ids...] : runs the quick checks one after another, prints exit code and wall time
cd "$(dirname "$0")/.."
ids="$@"; [ -z "$ids" ] && ids=$(python3 -c "import json;print(' '.join(c['property_id'] for c in json.load(open('MANIFEST.json'))['checks']))")
mkdir -p /tmp/runall
for id in $ids; do
  s=$(date +%s); ./check $id --tier quick > /tmp/runall/$id.out 2>&1; rc=$?; e=$(date +%s)
  echo "$id exit=$rc wall=$((e-s))s viol=$(grep -c '^VIOLATION' /tmp/runall/$id.out) undec=$(grep -c '^UNDECIDED' /tmp/runall/$id.out) $(tail -1 /tmp/runall/$id.out | cut -c1-120)"
done
