#!/bin/bash
# tools/run_all_thorough.sh [ids...] : runs the thorough checks one after another (niced), prints exit code and wall time
cd "$(dirname "$0")/.."
ids="$@"; [ -z "$ids" ] && ids=$(python3 -c "import json;print(' '.join(c['property_id'] for c in json.load(open('MANIFEST.json'))['checks']))")
mkdir -p /tmp/runall_thorough
for id in $ids; do
  s=$(date +%s); PYVC_NO_EVIDENCE=1 nice -n 10 ./check $id --tier thorough > /tmp/runall_thorough/$id.out 2>&1; rc=$?; e=$(date +%s)
  echo "$id exit=$rc wall=$((e-s))s viol=$(grep -c '^VIOLATION' /tmp/runall_thorough/$id.out) undec=$(grep -c '^UNDECIDED' /tmp/runall_thorough/$id.out) $(grep '^\[pyvc\]' /tmp/runall_thorough/$id.out | tail -1 | cut -c1-140)"
done
