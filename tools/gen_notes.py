#!/usr/bin/env python3
"""Writes design_notes/<ID>.generated.md for every property: functions under contract, units, clause names (from the ledger),
assumptions (TRUSTED) and undecided clauses (NOT_DECIDED) of the contract module, repaired defects, seeded changes and whether the
check catches them.  Generated from the same files the checks use, so it cannot drift from the machinery."""
import ast
import glob
import json
import os
import re
import sys

HERE = os.path.dirname(os.path.abspath(__file__))
ROOT = os.path.join(HERE, "..")
kf = json.load(open(os.path.join(ROOT, "known_findings.json")))["entries"]


def lit(tree, name):
    for node in tree.body:
        if isinstance(node, ast.Assign) and len(node.targets) == 1 and getattr(node.targets[0], "id", None) == name:
            try:
                return ast.literal_eval(node.value)
            except Exception:
                return None
    return None


for pid in ["C%02d" % k for k in range(1, 21)]:
    cpath = os.path.join(ROOT, "contracts", pid + ".py")
    if not os.path.exists(cpath):
        continue
    tree = ast.parse(open(cpath).read())
    man = lit(tree, "MANIFEST") or {}
    trusted = lit(tree, "TRUSTED") or []
    notdec = lit(tree, "NOT_DECIDED") or []
    ev = {}
    ep = os.path.join(ROOT, "evidence", pid + ".json")
    if os.path.exists(ep):
        ev = json.load(open(ep))
    cov = ev.get("coverage", {})
    out = [f"# {pid} — generated summary (tools/gen_notes.py)\n"]
    out.append("## Claim\n\n" + str(man.get("text", "")) + "\n\n**Assumptions / limits:** " + str(man.get("note", "")) + "\n")
    out.append("## Functions under contract (source re-read on every run)\n")
    for f in cov.get("functions_under_contract", []):
        out.append(f"* `{f['function']}` ({os.path.basename(str(f.get('file')))}:{f.get('line')})")
    out.append("")
    # clause names per unit family (unit name without the case)
    fam = {}
    for o in cov.get("obligation_list", []):
        n = o["name"]
        m = re.match(r"^(.*?)(\[[^\]]*\])?:(.*)$", n)
        if not m:
            continue
        fam.setdefault(m.group(1), {}).setdefault(m.group(3), 0)
        fam[m.group(1)][m.group(3)] += 1
    out.append("## Obligations (clause name x number of cases) per unit\n")
    for u, cl in fam.items():
        out.append(f"* **{u}**: " + "; ".join(f"`{c}` x{k}" for c, k in cl.items()))
    out.append(f"\nTotal: {cov.get('obligations')} obligations, {cov.get('discharged')} discharged; back ends: {cov.get('per_backend')}; "
               f"solver {cov.get('solver_time_s')} s, wall {ev.get('wall_s')} s; conformance replays: {cov.get('conformance')}.\n")
    out.append("## Assumed (trusted) for this property\n")
    out.extend(f"* {t}" for t in trusted)
    out.append("\n## Not decided by this family (stated, never counted)\n")
    out.extend(f"* {t}" for t in notdec)
    fx = [e for e in kf if e["property"] == pid]
    out.append("\n## Genuine defects found by a failing obligation of this check\n")
    if not fx:
        out.append("none")
    for e in fx:
        out.append(f"* `{e['obligation']}` — {e['line']}")
    out.append("\n## Independently seeded changes\n")
    seeds = sorted(glob.glob(os.path.join(ROOT, "seeded", pid + "-*")))
    if not seeds:
        out.append("none kept")
    for d in seeds:
        try:
            meta = json.load(open(os.path.join(d, "meta.json")))
        except Exception:
            continue
        det = json.load(open(os.path.join(d, "detection.json"))) if os.path.exists(os.path.join(d, "detection.json")) else {}
        res = "not evaluated" if not det else (f"caught: exit {det['exit']}, {det['violation_lines']} VIOLATION lines ({det['violations_with_failing_replay']} with failing replay); first: " +
                                               "; ".join(x.split(' status=')[0] for x in det.get('first_failed_obligations', [])[:2]) if det.get("detected") else f"**missed** (exit {det.get('exit')})")
        out.append(f"* `{os.path.basename(d)}` — {re.sub(chr(10), ' ', str(meta.get('summary', '')))[:300]} — {res}")
    with open(os.path.join(ROOT, "design_notes", pid + ".generated.md"), "w") as f:
        f.write("\n".join(out) + "\n")
print("written")
