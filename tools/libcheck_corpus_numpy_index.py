"""libcheck corpus: indexing, slicing, boolean masks, integer-array indexing, stores (pyvc/arr.py getitem / setitem)."""
from libcheck_corpus import B, C, E, F, Iv, P, T

FA = F([1.5, -2.5, 0.5, 3.25, -0.75, 2.0])
IA = Iv([3, -2, 0, 7, -5])
F2 = F([[1.0, -2.0, 3.5], [0.5, 0.0, -1.5], [4.0, 5.0, 6.0], [7.5, 8.5, 9.5]])
I2 = Iv([[1, 2, 3], [4, 5, 6]])
F3 = F([[[1.0, 2.0], [3.0, 4.0]], [[5.0, 6.0], [7.0, 8.0]], [[9.0, 10.0], [11.0, 12.0]]])
E0 = F([])
E02 = F([], shape=(0, 3))
M6 = B([True, False, True, True, False, False])
M4 = B([False, True, True, False])


def register(rng):
    E("index:int", "a", "(a[0], a[2], a[-1], a[-2], a[len(a) - 1])", [[FA], [IA], [F([2.5])]], [])
    E("index:int-out-of-range", "a, i", "a[i]", [[FA, 6], [FA, -7], [E0, 0], [F2, 4]], [])
    E("index:float-index", "a, x", "a[x]", [[FA, 1.0]], [])
    E("index:2d", "a", "(a[1, 2], a[1][2], a[-1, -1], a[0], a[-1], a[1, :], a[:, 1], a[:, -1], a[..., 0], a[1, ...], a[2][1:])", [[F2], [I2]], [])
    E("index:3d", "a", "(a[1, 0, 1], a[1], a[1, 0], a[:, 0, :], a[..., 1], a[0, :, 1], a[:, :, 0].shape, a[1][1][0], a[-1, -1, -1])", [[F3]], [])
    E("index:slice", "a", "(a[1:3], a[:2], a[2:], a[:-1], a[-2:], a[1:-1], a[:], a[3:3], a[4:2], a[:100], a[-100:2], a[5:100])", [[FA], [IA], [E0], [F([2.5])]], [])
    E("index:slice-2d", "a", "(a[1:3], a[:, 1:], a[1:, :2], a[:2, 1], a[1, 1:], a[:0], a[:, :0].shape, a[1:3, 1:3], a[1:][0], a[1:][:, 1])", [[F2]], [])
    E("index:slice-step", "a", "(a[::2], a[1::2], a[::-1])", [[FA]], [])
    E("index:slice-var-bounds", "a, i, n", "(a[i:i + n], a[1:1 + a.shape[0] // 2], a[i + 1:], a[:i])", [[FA, 1, 3], [FA, 0, 0], [FA, 4, 5]], [])
    E("index:neighbor-row-pattern", "cn, i", "(cn[i, 1:1 + cn[i, 0]], cn[i, 1:], cn[i, 0], cn[:, 0][:, np.newaxis])", [[Iv([[2, 4, 5, 0], [3, 1, 2, 6], [0, 0, 0, 0]]), 0], [Iv([[2, 4, 5, 0], [3, 1, 2, 6], [0, 0, 0, 0]]), 2]], [])
    E("index:bool-mask", "a, m", "(a[m], a[~m], a[m].shape, a[m].sum(), a[m].mean(), len(a[m]), a[m][0])", [[FA, M6], [Iv([1, 2, 3, 4, 5, 6]), M6], [FA, B([True] * 6)]], ["masked.sum", "masked.mean"])
    E("index:bool-mask-none-selected", "a, m", "(a[m], a[m].shape, a[m].sum(), len(a[m]))", [[FA, B([False] * 6)], [E0, B([])]], ["masked.sum"])
    E("index:bool-mask-rows", "a, m", "(a[m], a[m].shape, a[m][:, 0], a[m].sum(axis=0), a[m].mean(axis=0), a[m][1], a[m][:, np.newaxis].shape)", [[F2, M4]], ["masked.sum", "masked.mean"])
    E("index:bool-mask-expr", "a", "(a[a > 0], a[(a > 0) & (a < 3)], a[(a < 0) | (a > 3)], a[a == 0.5], a[a != a[0]], (a > 0).sum(), a[a > 100])", [[FA], [IA]], [])
    E("index:bool-mask-second-array", "d, t", "(d[t == 2], d[(t == 1) | (t == 3)], d[t > 5], d[(t + t == 4) & (t - t == 0)])", [[FA, Iv([1, 2, 2, 3, 1, 2])]], [])
    E("index:bool-mask-length-mismatch", "a, m", "a[m]", [[FA, M4]], [])
    E("index:bool-mask-after-int", "a, m, n", "(a[n, m], a[n][m])", [[F2, B([True, False, True]), 1]], [])
    E("index:bool-mask-2d-full", "a", "a[a > 1]", [[F2]], [])
    E("index:mask-products", "u, v, m", "((u[m] * v[m]).sum(), (u[m] * v[m]).sum(axis=0), (u[m] * 2).sum())", [[F2, F([[2.0, 2.0, 2.0], [1.0, 1.0, 1.0], [0.5, 0.5, 0.5], [3.0, 3.0, 3.0]]), M4]], ["masked.sum"])
    E("index:fancy", "a, idx", "(a[idx], a[idx].shape, a[idx][0], a[idx].sum())", [[FA, Iv([0, 2, 2, 5])], [FA, Iv([-1, 0])], [FA, Iv([], shape=(0,))], [IA, Iv([4])], [F2, Iv([3, 0])]], [])
    E("index:fancy-list", "a", "(a[[0, 2]], a[[1]], a[[-1, -2]])", [[FA], [F2]], [])
    E("index:fancy-2d", "a, idx", "(a[idx], a[:, idx], a[1, idx], a[idx, 1], a[idx][:, 0], a[idx, idx])", [[F2, Iv([0, 2])]], [])
    E("index:fancy-2d-index-array", "a, idx", "(a[idx], a[idx].shape)", [[FA, Iv([[0, 1], [2, 3]])]], [])
    E("index:fancy-out-of-range", "a, idx", "a[idx]", [[FA, Iv([0, 6])], [FA, Iv([-7])]], [])
    E("index:fancy-float-index-array", "a, idx", "a[idx]", [[FA, F([0.0, 2.0])]], [])
    E("index:fancy-nearest-pattern", "d, k", "(d[np.array([2, 0, 1])][: k + 1], np.arange(len(d))[d > 0][:k])", [[FA, 1]], ["np.array", "np.arange"])
    E("index:fancy-3d-wigner-pattern", "q, w", "(q[1, 0, w], q[1, 0, w].shape, np.prod(q[1, 0, w], axis=1))", [[F([[[1.0, 2.0, 3.0]], [[4.0, 5.0, 6.0]]]), Iv([[0, 1, 2], [2, 2, 0]])]], ["np.prod"])
    E("index:take-from-list-of-arrays", "a, b", "([a, b][1][0], (a, b)[0][-1])", [[FA, IA]], [])
    # stores
    P("store:element", "a", "a[0] = 9.5\na[-1] = -1\na[2] = a[1] * 2\nreturn a", [[FA], [IA]], [])
    P("store:element-int-array-float-value", "a", "a[0] = 2.9\na[1] = -2.9\nreturn a", [[IA]], [])
    P("store:element-2d", "a", "a[1, 2] = 9.5\na[0][1] = 7.5\na[-1, -1] = 0\nreturn a", [[F2]], [])
    P("store:out-of-range", "a", "a[6] = 1.0\nreturn a", [[FA]], [])
    P("store:row", "a, v", "a[1] = v\na[2, :] = 0\na[3] = a[0]\nreturn a", [[F2, F([10.0, 20.0, 30.0])]], [])
    P("store:column", "a, v", "a[:, 0] = v\na[:, 2] = 1\na[:, 1] = a[:, 0] * 2\nreturn a", [[F2, F([10.0, 20.0, 30.0, 40.0])]], [])
    P("store:slice", "a", "a[1:3] = 0\na[3:] = a[:3]\na[:2] = [7, 8]\nreturn a", [[FA]], [])
    P("store:slice-overlap", "a", "a[1:] = a[:-1]\nreturn a", [[FA]], [])
    P("store:slice-shape-mismatch", "a, v", "a[1:3] = v\nreturn a", [[FA, F([1.0, 2.0, 3.0])]], [])
    P("store:full", "a, v", "a[:] = v\nreturn a", [[FA, 1.0], [FA, F([6.0, 5.0, 4.0, 3.0, 2.0, 1.0])]], [])
    P("store:ellipsis", "a", "a[...] = 2\nreturn a", [[F2]], [])
    P("store:mask-scalar", "a, m", "a[m] = 0\na[a < 0] = -1\na[m] += 10\nreturn a", [[FA, M6], [Iv([1, -2, 3, 4, -5, 6]), M6]], [])
    P("store:mask-rows", "a, m", "a[m] = 0\nreturn a", [[F2, M4]], [])
    P("store:mask-array-value", "a, m, v", "a[m] = v\nreturn a", [[FA, M6, F([7.0, 8.0, 9.0])]], [])
    P("store:mask-column", "a, m, v", "a[m, 1] = v[m]\na[m, 0] = 5\nreturn a", [[F2, M4, F([10.0, 20.0, 30.0, 40.0])]], [])
    P("store:mask-2d", "a", "a[a > 4] = 0\nreturn a", [[F2]], [])
    P("store:fancy", "a, idx, v", "a[idx] = v\nreturn a", [[FA, Iv([4, 0]), F([7.0, 8.0])], [FA, Iv([5, 3, 1]), 0.0], [F2, Iv([2]), 1.0]], [])
    P("store:fancy-aug", "a, idx", "a[idx] += 1\nreturn a", [[FA, Iv([4, 0])], [FA, Iv([1, 1])]], [])
    P("store:fancy-2d-pairs", "a, i, j", "a[i, j] = 0\nreturn a", [[F2, Iv([0, 3]), Iv([1, 2])]], [])
    P("store:scatter-by-id-pattern", "ids, x", """
        out = np.zeros((len(ids), 2))
        for k in range(len(ids)):
            out[ids[k] - 1] = x[k]
        return out
    """, [[Iv([3, 1, 2]), F([[1.0, 2.0], [3.0, 4.0], [5.0, 6.0]])]], ["np.zeros"])
    P("store:into-int-array-from-tokens", "s", """
        out = np.zeros((2, 3), dtype=np.int32)
        item = s.split()
        out[0] = item[0:3]
        out[1, 0] = item[3]
        return out
    """, [["4 5 6 7"]], ["np.zeros", "str.split"])
    P("store:into-float-array-from-tokens", "s", """
        out = np.zeros((1, 3))
        item = s.split()
        out[0] = [float(j) for j in item[1:4]]
        return out
    """, [["1 0.5 1.5e1 -2 extra"]], ["np.zeros", "str.split", "float"])
    P("store:complex-into-float", "a, z", "a[0] = z\nreturn a", [[F([1.0, 2.0]), {"__cx__": [1.0, 2.0]}]], [])
    P("store:complex-array-into-float-slice", "a, z", "a[:] = z\nreturn a", [[F([1.0, 2.0]), C([1 + 2j, 3.0])]], [])
    P("store:bool-array", "n", "m = np.zeros(n, dtype=bool)\nm[1] = True\nm[2] = 5\nreturn m", [[4]], ["np.zeros"])
    P("store:list-element", "L", "L[1] = 9\nL[-1] = 7\nreturn L", [[[1, 2, 3]]], [])
    P("store:nested-list", "n", "M = [[0] * 2 for _ in range(n)]\nM[1][0] = 5\nreturn M", [[3]], [])
    P("store:nested-list-shared-rows", "n", "M = [[0] * 2] * n\nM[1][0] = 5\nreturn M", [[3]], [])
