"""libcheck corpus: RELATIONAL contracts on random inputs (with ties): argsort, argpartition, unique, max / min, boolean-mask selection,
eigh / eig, sort, len(set()), freud Voronoi, scipy sph_harm.  The snippets are of kind "rel": the symbols of the engine's result
are bound to the real output and every assumed fact (path assumptions, array facts, qfacts, QFACTS) is evaluated / model-checked."""
from libcheck_corpus import B, C, E, F, Iv, P, T

NCASES = 40


def _vals(rng, n, ties=True, ints=False):
    if ints:
        return [rng.randint(-3, 3) if ties else rng.randint(-50, 50) for _ in range(n)]
    pool = [0.0, 0.5, -0.5, 1.25, 2.0, -1.75, 3.5] if ties else None
    return [rng.choice(pool) if ties and rng.random() < 0.7 else round(rng.uniform(-4, 4), 3) for _ in range(n)]


def register(rng):
    # ---- argsort (pyvc/relops.argsort): permutation + order facts
    cases = [[F(_vals(rng, rng.randint(0, 8), ties=rng.random() < 0.7))] for _ in range(NCASES)] + [[Iv(_vals(rng, rng.randint(1, 8), ints=True))] for _ in range(NCASES // 2)]
    E("rel:np.argsort", "a", "np.argsort(a)", cases, ["np.argsort"], cat="rel", kind="rel", modes=["conc", "sym"])
    E("rel:arr.argsort", "a", "a.argsort()", cases[:20], ["arr.argsort"], cat="rel", kind="rel", modes=["conc", "sym"])
    E("rel:np.argsort:sorted-values", "a", "a[np.argsort(a)]", cases[:30], ["np.argsort"], cat="rel", kind="rel", modes=["conc", "sym"])
    E("rel:np.argsort:neighbor-pattern", "d, r", "(lambda sel: sel[np.argsort(d[sel])][1:])(np.arange(len(d))[d < r])", [[F([0.0] + [abs(x) for x in _vals(rng, rng.randint(1, 7), ties=False)]), 2.5] for _ in range(30)],
      ["np.argsort", "np.arange"], cat="rel", kind="rel", modes=["conc", "sym"])
    E("rel:np.argsort:2d", "a", "np.argsort(a)", [[F([[2.0, 1.0], [0.5, 3.0]])]], ["np.argsort"], cat="rel", kind="rel")
    # ---- argpartition (relops / C17 variant)
    pc = []
    for _ in range(NCASES):
        n = rng.randint(1, 8)
        pc.append([F(_vals(rng, n, ties=rng.random() < 0.7)), rng.randint(0, n - 1)])
    E("rel:np.argpartition", "a, k", "np.argpartition(a, k)", pc, ["np.argpartition"], cat="rel", kind="rel", modes=["conc", "sym"])
    E("rel:np.argpartition:first-k+1", "a, k", "np.argpartition(a, k)[: k + 1]", pc[:30], ["np.argpartition"], cat="rel", kind="rel", modes=["conc", "sym"])
    E("rel:np.argpartition:kth-out-of-range", "a, k", "np.argpartition(a, k)", [[F([1.0, 2.0, 3.0]), 3], [F([1.0]), 1], [F([]), 0]], ["np.argpartition"], cat="rel", kind="rel", modes=["conc", "sym"])
    E("rel:np.argpartition:nearest-pattern", "d, k", "(lambda nn: d[nn[np.argsort(d[nn])]])(np.argpartition(d, k)[: k + 1])", [c for c in pc[:30] if len(c[0]["__nd__"]) >= 2], ["np.argpartition", "np.argsort"], cat="rel", kind="rel")
    # ---- unique
    uc = [[Iv(sorted(_vals(rng, rng.randint(0, 9), ints=True)) if rng.random() < 0.3 else _vals(rng, rng.randint(0, 9), ints=True))] for _ in range(NCASES)] + \
         [[F(_vals(rng, rng.randint(1, 8)))] for _ in range(NCASES // 2)]
    E("rel:np.unique:counts", "a", "np.unique(a, return_counts=True)", uc, ["np.unique"], cat="rel", kind="rel", modes=["conc", "sym"])
    E("rel:np.unique:values", "a", "np.unique(a)", uc[:40], ["np.unique"], cat="rel", kind="rel", modes=["conc", "sym"])
    E("rel:np.unique:type-pattern", "t", "(lambda u, c: (u, c, np.sum(c) == len(t), len(u), c / len(t)))(*np.unique(t, return_counts=True))", [[Iv([1, 2, 1, 1, 3, 2])], [Iv([1, 1])], [Iv([2])]], ["np.unique", "np.sum"], cat="rel", kind="rel", modes=["conc", "sym"])
    E("rel:np.unique:2d", "a", "np.unique(a)", [[Iv([[1, 2], [2, 3]])]], ["np.unique"], cat="rel", kind="rel")
    # ---- max / min over a symbolic axis (arr.reduce_minmax, relops.extremum, C17 symbolic_minmax)
    mc = [[F(_vals(rng, rng.randint(1, 8)))] for _ in range(NCASES)] + [[Iv(_vals(rng, rng.randint(1, 8), ints=True))] for _ in range(20)]
    E("rel:arr.max-min", "a", "(a.max(), a.min(), a.max() - a.min() >= 0)", mc, ["arr.max", "arr.min"], cat="rel", kind="rel", modes=["sym"], props=[None, "C17"])
    E("rel:builtin-max-min:array", "a", "(max(a), min(a))", mc[:30], ["max", "min"], cat="rel", kind="rel", modes=["sym"], props=[None, "C17"])
    E("rel:arr.max:axis0", "a", "(a.max(axis=0), a.min(axis=0))", [[F([_vals(rng, 3) for _ in range(rng.randint(1, 6))])] for _ in range(30)], ["arr.max", "arr.min"], cat="rel", kind="rel", modes=["sym"], props=[None, "C17"])
    E("rel:arr.max:column-pattern", "cn", "(cn[:, 0].max(), np.zeros((3, cn[:, 0].max() + 1)).shape)", [[Iv([[rng.randint(0, 4), 0, 0] for _ in range(rng.randint(1, 6))])] for _ in range(20)], ["arr.max", "np.zeros"], cat="rel", kind="rel", modes=["sym"], props=[None, "C17"])
    E("rel:arr.max:empty", "a", "a.max()", [[F([])]], ["arr.max"], cat="rel", kind="rel", modes=["conc"])
    # ---- boolean-mask selection through the symbolic path (arr.Masked, relops.select: SEL / RANK)
    sc = []
    for _ in range(NCASES):
        n = rng.randint(1, 8)
        sc.append([F(_vals(rng, n)), B([rng.random() < 0.5 for _ in range(n)])])
    E("rel:mask-select", "a, m", "(a[m], len(a[m]), a[m].sum(), a[m].shape[0])", sc, ["masked.sum"], cat="rel", kind="rel", modes=["sym"], props=[None, "C13"])
    E("rel:mask-select:positions", "a, m", "np.arange(len(a))[m]", sc[:30], ["np.arange"], cat="rel", kind="rel", modes=["sym"])
    E("rel:mask-select:rows", "a, m", "(a[m], a[m][:, 0], a[m].sum(axis=0), m.any())", [[F([_vals(rng, 2) for _ in c[1]["__nd__"]]), c[1]] for c in sc[:30]], ["masked.sum", "arr.any"], cat="rel", kind="rel", modes=["sym"])
    E("rel:mask-select:rows-mean", "a, m", "(a[m].mean(axis=0), a[m].mean())", [[F([_vals(rng, 2) for _ in c[1]["__nd__"]]), c[1]] for c in sc[:30] if any(c[1]["__nd__"])], ["masked.mean"], cat="rel", kind="rel", modes=["sym"])
    E("rel:mask-select:compare", "a, x", "(a[a > x], a[(a > x) & (a < x + 2)], (a > x).sum())", [[F(_vals(rng, rng.randint(1, 8))), rng.choice([0.0, 0.5, -1.0])] for _ in range(30)], ["arr.sum"], cat="rel", kind="rel", modes=["sym"])
    E("rel:mask-select:enumerate-pattern", "d, m", "[j * x for j, x in enumerate(d[m])]", sc[:10], ["enumerate"], cat="rel", kind="rel", modes=["conc"])
    E("rel:filtered-comprehension", "L, x", "[v * 2 for v in L if v > x]", [[_vals(rng, rng.randint(0, 6)), 0.0] for _ in range(20)], [], cat="rel", kind="rel", modes=["conc"])
    # ---- len(set(...)) (C14 symset_card)
    dc = [[Iv(sorted(rng.sample(range(0, 60, 10), rng.randint(1, 5))))] for _ in range(20)] + [[Iv([0, 5, 10, 15])], [Iv([2, 4])], [Iv([7])]]
    E("rel:len-set-diff", "t", "len(set(np.diff(t)))", dc, ["len", "set", "np.diff"], cat="rel", kind="rel", modes=["sym"], props=["C14"])
    E("rel:len-set-diff==1", "t", "(len(set(np.diff(t))) == 1, len(set(np.diff(t))) != 1)", dc, ["len", "set", "np.diff"], cat="rel", kind="rel", modes=["conc", "sym"])
    # ---- np.sort (C17 closed forms for <= 3 values; C18 relational for <= 4)
    E("rel:np.sort", "a", "np.sort(a)", [[F(_vals(rng, rng.randint(1, 3)))] for _ in range(30)], ["np.sort"], cat="rel", kind="rel", props=["C17"], modes=["conc"])
    E("rel:np.sort:4", "a", "np.sort(a)", [[F(_vals(rng, 4))] for _ in range(20)], ["np.sort"], cat="rel", kind="rel", props=["C17"], modes=["conc"])
    # ---- eigen decompositions
    def sym(n):
        m = [[0.0] * n for _ in range(n)]
        for i in range(n):
            for j in range(i, n):
                m[i][j] = m[j][i] = rng.choice([0.0, 0.5, 1.0, -1.0, 2.0, 0.25, -0.75]) if rng.random() < 0.8 else round(rng.uniform(-2, 2), 2)
        return m
    E("rel:np.linalg.eig:values", "m", "np.linalg.eig(m)[0].real", [[F(sym(rng.choice([2, 3])))] for _ in range(NCASES)], ["np.linalg.eig"], cat="rel", kind="rel", props=["C17"], tol=1e-9, modes=["conc"])
    E("rel:np.linalg.eig:dtype", "m", "np.linalg.eig(m)[0]", [[F([[2.0, 0.5], [0.5, 1.0]])]], ["np.linalg.eig"], cat="rel", kind="rel", props=["C17"], tol=1e-9, modes=["conc"],
      limitation="the installed numpy 2.5.3 returns complex128 eigenvalues from linalg.eig for EVERY input (zero imaginary parts for symmetric input); the C17 / C18 contracts model real (float) eigenvalues: values agree, the dtype class does not "
                 "(contracts/C17.py NOT_DECIDED lists complex eig output for asymmetric input only)")
    E("rel:np.linalg.eig:asymmetric", "m", "np.linalg.eig(m)[0].real", [[F([[1.0, 2.0], [0.0, 3.0]])]], ["np.linalg.eig"], cat="rel", kind="rel", props=["C17"], tol=1e-9, modes=["conc"])
    E("rel:np.linalg.eigh", "m", "np.linalg.eigh(m)", [[F(sym(rng.choice([1, 2, 3, 4])))] for _ in range(NCASES)], ["np.linalg.eigh"], cat="rel", kind="rel", props=["C11"], tol=1e-9, extra_facts=_eigh_facts, modes=["conc"])
    E("rel:np.linalg.eigh:where-sqrt-pattern", "m", "(lambda w, v: np.where(w > 0, np.sqrt(np.abs(w)), w))(*np.linalg.eigh(m))", [[F(sym(2))] for _ in range(10)], ["np.linalg.eigh", "np.where", "np.sqrt"], cat="rel", kind="rel", props=["C11"], tol=1e-9, modes=["conc"])
    _register_tail(rng)
    E("rel:np.linalg.eigh:nonsquare", "m", "np.linalg.eigh(m)", [[F([[1.0, 2.0, 3.0], [4.0, 5.0, 6.0]])]], ["np.linalg.eigh"], cat="rel", kind="rel", props=["C11"], modes=["conc"])


def _register_tail(rng):
    register_voronoi(rng)
    register_scipy(rng)
    register_misc(rng)


def _eigh_facts(eo, bind, ze):
    """the part of the eigh contract that its docstring states as 'assumed meaning' (ascending eigenvalues, eigen-equation, orthonormal
    columns) but hands to no proof: evaluated here on the real output as additional evidence"""
    import z3
    from pyvc import sv
    out = []
    ev = [e for e in eo.state.trace if e[0] == "np.linalg.eigh"]
    if not ev:
        return out
    _, a, evals, evecs, w, V, _ = ev[-1]
    n = int(a.shape[0])
    M = [[a.get((i, j)) for j in range(n)] for i in range(n)]
    for k in range(n - 1):
        out.append((f"eigh ascending w({k}) <= w({k + 1})", w(z3.IntVal(k)) <= w(z3.IntVal(k + 1))))
    for k in range(n):
        for i in range(n):
            # the lower triangle is used (UPLO='L')
            lhs = sum((sv.zr(M[max(i, j)][min(i, j)]) * V(z3.IntVal(j), z3.IntVal(k)) for j in range(n)), z3.RealVal(0))
            out.append((f"eigh equation row {i} column {k}", lhs == w(z3.IntVal(k)) * V(z3.IntVal(i), z3.IntVal(k))))
        for l in range(k, n):
            dot = sum((V(z3.IntVal(b), z3.IntVal(k)) * V(z3.IntVal(b), z3.IntVal(l)) for b in range(n)), z3.RealVal(0))
            out.append((f"eigh orthonormal columns {k},{l}", dot == (1 if k == l else 0)))
    return out


def _voro_binder(eo, real, pl):
    """interpretation of the lifted result functions of the C20 Voronoi contract (CN, NBR, WGT, REV, VOL, ROW, COL) read off the
    real freud output: the neighbour list is sorted by its first column; REV pairs every bond (i -> j) with a bond (j -> i) of the
    same weight"""
    from pyvc.libext import C20
    if "exc" in real or not C20.SYSTEMS:
        return {}
    vl = list(C20.SYSTEMS.values())[-1]
    ret = real["ret"]["v"]
    nl, w, vol = ret[0]["v"], ret[1]["v"], ret[2]["v"]
    N = len(vol)
    cn = [sum(1 for row in nl if row[0] == i) for i in range(N)]
    S = [0]
    for c in cn:
        S.append(S[-1] + c)
    name = {k: f.name() for k, f in vl.f.items()}
    b = {}
    for i in range(N):
        b[(name["CN"], (i,))] = cn[i]
        b[(name["VOL"], (i,))] = vol[i]
        for r in range(cn[i]):
            b[(name["NBR"], (i, r))] = nl[S[i] + r][1]
            b[(name["WGT"], (i, r))] = w[S[i] + r]
    for t, row in enumerate(nl):
        b[(name["ROW"], (t,))] = row[0]
        b[(name["COL"], (t,))] = t - S[row[0]]
    used = set()
    for i in range(N):
        for r in range(cn[i]):
            j = nl[S[i] + r][1]
            cands = [q for q in range(cn[j]) if nl[S[j] + q][1] == i and (j, q) not in used]
            if not cands:
                continue            # REV stays unbound: the facts about it become unsatisfiable or are left to the solver
            q = min(cands, key=lambda q: abs(w[S[j] + q] - w[S[i] + r]))
            if (i, r) not in [(x, y) for x, y in used]:
                b[(name["REV"], (i, r))] = q
                b[(name["REV"], (j, q))] = r
                used.add((i, r))
                used.add((j, q))
    return b


def _voro_cases(rng, dims, n):
    L = [rng.choice([4.0, 5.0, 6.5]) for _ in range(dims)]
    pts = []
    for _ in range(n):
        p = [round(rng.uniform(-l / 2, l / 2) * 0.98, 3) for l in L]
        pts.append(p + [0.0] * (3 - dims))
    return [F(L), F(pts)]


_VORO_SRC = """
def f(L, pts):
    box = freud.box.Box.from_box(L)
    voro = freud.locality.Voronoi()
    res = voro.compute((box, pts))
    nl = np.array(voro.nlist)
    return nl, voro.nlist.weights, voro.volumes, res is voro
"""


def register_voronoi(rng):
    from libcheck_corpus import S
    cases = [_voro_cases(rng, 2, rng.randint(4, 6)) for _ in range(5)] + [_voro_cases(rng, 3, rng.randint(5, 7)) for _ in range(3)]
    S("rel:freud.Voronoi", _VORO_SRC, cases, ["freud.locality.Voronoi", "freud.locality.Voronoi.compute", "freud.box.Box.from_box"], cat="rel", kind="rel", props=["C20"],
      header="import freud\n", binder=_voro_binder, modes=["conc"], tol=1e-5, fact_tol=1e-5, fact_range=7)
    S("rel:freud.Voronoi:unique-counts-pattern", """
def f(L, pts):
    box = freud.box.Box.from_box(L)
    voro = freud.locality.Voronoi()
    voro.compute((box, pts))
    nlist = np.array(voro.nlist) + 1
    unique, counts = np.unique(nlist[:, 0], return_counts=True)
    return unique, counts, voro.volumes
""", cases[:4] + cases[5:7], ["freud.locality.Voronoi", "np.unique"], cat="rel", kind="rel", props=["C20"], header="import freud\n", binder=_voro_binder_uc, modes=["conc"], tol=1e-5, fact_tol=1e-5)
    S("rel:freud.Voronoi:z-nonzero-in-2D", _VORO_SRC, [[F([4.0, 4.0]), F([[0.0, 0.0, 0.5], [1.0, 1.0, 0.0], [-1.0, 0.5, 0.0], [0.5, -1.0, 0.0]])]], ["freud.locality.Voronoi.compute"], cat="rel", kind="rel", props=["C20"],
      header="import freud\n", modes=["conc"])
    S("rel:freud.Voronoi:attributes-before-compute", "def f(L):\n    v = freud.locality.Voronoi()\n    return v.volumes\n", [[F([4.0, 4.0])]], ["freud.locality.Voronoi"], cat="rel", kind="rel", props=["C20"], header="import freud\n", modes=["conc"])
    S("rel:freud.Box", "def f(L):\n    b = freud.box.Box.from_box(L)\n    return b.Lx, b.Ly, b.Lz, b.is2D, b.dimensions, b.volume, b.L\n", [[F([4.0, 5.0])], [F([4.0, 5.0, 2.5])]], ["freud.box.Box.from_box"], cat="rel", kind="rel", props=["C20"],
      header="import freud\n", modes=["conc"], tol=1e-6)


def _voro_binder_uc(eo, real, pl):
    """np.unique(first column) pattern: only counts and volumes are returned; CN(i) = counts[i], VOL(i) = volumes[i]"""
    from pyvc.libext import C20
    if "exc" in real or not C20.SYSTEMS:
        return {}
    vl = list(C20.SYSTEMS.values())[-1]
    ret = real["ret"]["v"]
    counts, vol = ret[1]["v"], ret[2]["v"]
    b = {}
    for i, c in enumerate(counts):
        b[(vl.f["CN"].name(), (i,))] = c
        b[(vl.f["VOL"].name(), (i,))] = vol[i]
    return b


def _ylm_engine(interp, l, m, theta, phi):
    """the meaning contracts/C08.py gives to scipy.special.sph_harm_y(l, m, theta, phi) (and sph_harm(m, l, phi, theta)): the abstract
    Y_lm(polar = theta, azimuth = phi), whose definition is contracts.C08.Y_spec — evaluated here on rational angles"""
    import contracts.C08 as C8
    from pyvc import sv
    re_, im_ = C8.Y_spec(int(l), int(m), theta, phi)
    return sv.Cx(re_, im_)


def register_scipy(rng):
    from libcheck_corpus import S
    cases = []
    for l in (1, 2, 3, 4, 6, 8, 10):
        for m in sorted({-l, -1, 0, 1, l, rng.randint(-l, l)}):
            cases.append([l, m, round(rng.uniform(0.05, 3.09), 3), round(rng.uniform(-3.1, 3.1), 3)])
    S("rel:scipy.sph_harm_y", "def f(l, m, theta, phi):\n    return sph_harm_y(l, m, theta, phi)\n", cases, ["scipy.special.sph_harm_y"], cat="rel", kind="value", props=["C08"],
      header="from scipy.special import sph_harm_y\n", engine_call=_ylm_engine, modes=["conc"], tol=1e-10)
    S("rel:scipy.sph_harm", "def f(l, m, theta, phi):\n    return sph_harm(m, l, phi % (2 * np.pi), theta)\n", cases[:6], ["scipy.special.sph_harm"], cat="rel", kind="value", props=["C08"],
      header="from scipy.special import sph_harm\n", engine_call=_ylm_engine, modes=["conc"], tol=1e-10,
      limitation="the installed scipy 1.18.1 has no scipy.special.sph_harm (ImportError; removed upstream): the contract of contracts/C08.py for it cannot be compared here (the repository falls back to sph_harm_y, fix 2dc5a1d)")


def register_misc(rng):
    from libcheck_corpus import FILE, S
    S("rel:sympy.wigner_3j", "def f(a, b, c, d, e, g):\n    return float(wigner_3j(a, b, c, d, e, g).evalf())\n", [[2, 2, 2, 0, 0, 0], [2, 2, 2, 1, -1, 0], [4, 4, 4, 2, -2, 0], [6, 6, 6, 0, 0, 0], [2, 2, 2, 1, 1, 1]],
      ["sympy.wigner_3j", "scalar.ident", "float"], cat="rel", kind="rel", props=["C09"], header="from sympy.physics.wigner import wigner_3j\n", modes=["conc"])
    S("misc:dataclasses.replace", """
@dataclass(frozen=True)
class Snap:
    n: int
    x: float
    pos: object = None


def f(n, x, a):
    s = Snap(n, x)
    t = replace(s, pos=a, n=n + 1)
    return s.n, s.x, s.pos is None, t.n, t.x, t.pos
""", [[3, 0.5, F([1.0, 2.0])]], ["dataclasses.replace"], cat="value", header="from dataclasses import dataclass, replace\n")
    S("misc:dataclasses.replace:unknown-field", "@dataclass(frozen=True)\nclass Snap:\n    n: int\n\n\ndef f(n):\n    return replace(Snap(n), m=1).n\n", [[3]], ["dataclasses.replace"], cat="value", header="from dataclasses import dataclass, replace\n")
    S("misc:dataclasses.frozen-assignment", "@dataclass(frozen=True)\nclass Snap:\n    n: int\n\n\ndef f(n):\n    s = Snap(n)\n    s.n = 5\n    return s.n\n", [[3]], [], cat="value", header="from dataclasses import dataclass, replace\n")
    S("misc:scalar-methods", "def f(a):\n    x = a[0] * 2\n    return x.sum(), (a * a).sum().real, x.real, x.conjugate(), a[1].conj(), x.dtype == 'float64', x.shape\n", [[F([1.5, 2.5])], [C([1 + 2j, 3j])]], ["scalar.ident", "scalar.conj"], cat="value")
    S("misc:tok.isnumeric", "def f(path):\n    fh = open(path)\n    item = fh.readline().split()\n    return [w.isnumeric() for w in item]\n", [[FILE("12 abc -3 007\n")]], ["tok.isnumeric", "open", "file.readline"], cat="file")
