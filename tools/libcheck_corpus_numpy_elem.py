"""libcheck corpus: element-wise numpy functions and array operators (pyvc/lib.py `_map`, pyvc/arr.py binop / ew)."""
from libcheck_corpus import B, C, C64, CX, E, F, F32, I32, Iv, P

FA = F([1.5, -2.5, 0.5, 3.25, -0.75, 2.0])
FP = F([0.25, 4.0, 2.0, 9.0, 1.0])
F2 = F([[1.0, -2.0, 3.5], [0.5, 0.0, -1.5]])
IA = Iv([3, -2, 0, 7, -5])
I2 = Iv([[1, 2, 3], [4, 5, 6]])
CA = C([1 + 2j, -0.5j, 3.0, -1.5 + 0.5j])
E0 = F([])
E02 = F([], shape=(0, 3))
ONE = F([2.5])


def register(rng):
    ties = F([0.5, 1.5, 2.5, -0.5, -1.5, -2.5, 2.4999, 2.5001, 1e6 + 0.5, 0.0, 3.0])
    E("np.rint:ties", "a", "np.rint(a)", [[ties], [F2], [E0], [IA], [ONE]], ["np.rint"])
    E("np.rint:scalar", "x", "np.rint(x)", [[2.5], [-3.5], [0.49], [4]], ["np.rint"])
    E("np.rint:pbc-pattern", "m, p", "m - np.rint(m) * p", [[F([[0.6, -0.6], [1.5, 0.5], [-2.5, 0.49]]), Iv([1, 0])], [F([[0.6, -0.6]]), F([1.0, 1.0])]], ["np.rint"])
    E("np.round:decimals0", "a", "np.round(a)", [[ties], [IA]], ["np.round"])
    E("np.round:decimals-6-8", "a", "(np.round(a, 6), np.round(a, 8), np.around(a, 6))", [[F([0.12345678912, -3.999999996, 2.0, 1e-7])]], ["np.round"])
    E("np.round:method", "a", "a.round(6)", [[F([0.12345678912, 2.0])]], ["arr.round"])
    E("np.floor-ceil-trunc", "a", "(np.floor(a), np.ceil(a), np.trunc(a))", [[FA], [ties], [F([-0.0, 2.0])], [E0]], ["np.floor", "np.ceil", "np.trunc"])
    E("np.floor:scalar", "x", "(np.floor(x), np.ceil(x))", [[2.7], [-2.7], [3]], ["np.floor", "np.ceil"])
    E("np.sign", "a", "np.sign(a)", [[FA], [IA], [F([0.0, -0.0])]], ["np.sign"])
    E("np.sqrt:array", "a", "np.sqrt(a)", [[FP], [Iv([4, 9, 2])], [E0], [F([[4.0, 2.0]])], [F([0.0])]], ["np.sqrt"])
    E("np.sqrt:scalar", "x", "np.sqrt(x)", [[4.0], [2.0], [9], [0.5], [12]], ["np.sqrt"])
    E("np.sqrt:product-normalisation", "a, b", "np.sqrt(a * b) - np.sqrt(a) * np.sqrt(b)", [[F([2.0, 8.0, 0.5]), F([8.0, 0.5, 0.5])]], ["np.sqrt"])
    E("np.exp-log", "a", "(np.exp(a), np.log(np.exp(a)), np.log(a * a + 1))", [[FA], [F([0.0, 1.0])], [E0]], ["np.exp", "np.log"])
    E("np.exp:int-array", "a", "np.exp(a)", [[Iv([0, 1, -1])]], ["np.exp"])
    E("np.exp:complex", "a, x", "(np.exp(1j * a), np.exp(-1j * a * x), np.exp(a * 1j).real)", [[FA, 0.5], [F([0.0]), 2.0]], ["np.exp"])
    E("np.exp:complex-array", "z", "np.exp(z)", [[CA]], ["np.exp"])
    E("np.cos-sin", "a", "(np.cos(a), np.sin(a), np.cos(-a), np.sin(-a), np.cos(a) ** 2 + np.sin(a) ** 2)", [[FA], [F([0.0])], [Iv([0, 1, 2])], [E0]], ["np.cos", "np.sin"])
    E("np.cos:scalar", "x", "(np.cos(x), np.sin(x), np.cos(2 * np.pi * x))", [[0.25], [0], [-1.5]], ["np.cos", "np.sin"])
    E("np.arccos", "a", "np.arccos(a)", [[F([1.0, 0.5, 0.0, -0.5, -1.0, 0.123])]], ["np.arccos"])
    E("np.arccos:cos-roundtrip", "a", "np.cos(np.arccos(a))", [[F([1.0, 0.5, -0.25])]], ["np.arccos", "np.cos"])
    E("np.arctan2", "y, x", "np.arctan2(y, x)", [[F([1.0, -1.0, 0.0, 0.0, 2.0, -2.0]), F([1.0, 1.0, -1.0, 1.0, 0.0, -3.0])], [F([0.5]), 2.0]], ["np.arctan2"])
    E("np.arctan2:columns", "r", "np.arctan2(r[:, 1], r[:, 0])", [[F([[1.0, 1.0], [-1.0, 0.5], [0.0, -2.0]])]], ["np.arctan2"])
    E("np.arctan2:scalar", "y, x", "np.arctan2(-y, -x)", [[1.0, 2.0], [-0.5, 0.0]], ["np.arctan2"])
    E("np.angle", "z", "np.angle(z)", [[CA], [C([1j, -1.0, -1j])], [F([2.0, -2.0])]], ["np.angle"])
    E("np.angle:scalar", "z", "np.angle(z)", [[CX(1.0, 1.0)], [CX(-1.0, 0.0)], [CX(0.0, -2.0)]], ["np.angle"])
    E("np.log10", "a", "(np.log10(a), np.log10(a[0]) / np.log10(a[1]))", [[F([100.0, 2.0, 0.5])], [Iv([1000, 10])]], ["np.log10"])
    E("np.square", "a", "np.square(a)", [[FA], [IA], [CA], [F2], [E0]], ["np.square"])
    E("np.square:scalar", "x", "np.square(x)", [[3], [-1.5]], ["np.square"])
    E("np.conj-real", "z", "(np.conj(z), np.real(z), z.real, z.imag, z.conj(), np.conj(z) * z)", [[CA], [FA], [C([], shape=(0,))]], ["np.conj", "np.real", "arr.conj"])
    E("np.conj:scalar", "z", "(np.conj(z), np.real(z), np.abs(z))", [[CX(1.0, -2.0)], [2.5], [CX(3.0, 4.0)]], ["np.conj", "np.real", "np.abs"])
    E("np.abs", "a", "(np.abs(a), np.absolute(a), abs(a))", [[FA], [IA], [C([3 + 4j, -1j, 0.0])], [E0]], ["np.abs"])
    E("np.maximum-minimum", "a, b", "(np.maximum(a, b), np.minimum(a, b))", [[FA, 1.0], [IA, 0], [FA, F([0.0, 0.0, 1.0, 1.0, 2.0, 2.0])], [3, 5], [IA, 0.5], [Iv([4]) , Iv([2, 9])]], ["np.maximum", "np.minimum"])
    E("np.maximum:scalar-int-pattern", "e, s", "np.maximum(e - s - 1, 0)", [[5, 2], [2, 2]], ["np.maximum"])
    E("np.power", "a, p", "np.power(a, p)", [[FP, 2], [FP, 0.5], [FP, 1.5], [IA, 2], [FP, -1], [F([2.0, 3.0]), F([2.0, 0.5])], [FP, 3 - 1]], ["np.power"])
    E("np.power:third", "a", "np.power(a, 1.0 / 3)", [[F([8.0, 27.0, 2.0])]], ["np.power"], limitation="A1: 1.0/3 is the rational 1/3 in the engine (POW(a, 1/3)) and its decimal repr in the comparison - equal to 1e-12; kept to watch the POW path")
    E("np.isclose", "a, b", "np.isclose(a, b)", [[F([1.0, 2.0]), F([1.0, 2.5])], [1.0, 1.0], [0.5, 0.25]], ["np.isclose"])
    E("np.isclose:within-tolerance", "a, b", "np.isclose(a, b)", [[F([1.0]), F([1.000000001])], [1.0, 1.0 + 1e-9]], ["np.isclose"],
      limitation="np.isclose is modelled as exact equality (pyvc/lib.py: 'A1: tolerance collapses to equality'): two different reals within rtol=1e-5/atol=1e-8 are 'close' for numpy, not for the engine")
    E("np.iscomplexobj", "a", "np.iscomplexobj(a)", [[CA], [FA], [IA], [C64([1j])], [CX(1.0, 0.0)], [2.5]], ["np.iscomplexobj"])
    E("np.where:3arg", "c, a, b", "np.where(c, a, b)", [[B([True, False, True]), F([1.0, 2.0, 3.0]), F([-1.0, -2.0, -3.0])], [B([True, False]), 1, 0], [B([False, True]), F([1.5, 2.5]), 0],
                                                         [B([[True], [False]]), F([1.0, 2.0]), F([[9.0, 8.0], [7.0, 6.0]])], [B([]), 1.0, 2.0]], ["np.where"])
    E("np.where:condition-expr", "a", "(np.where(a > 0, np.sqrt(np.abs(a)), a), np.where((a > 0) & (a < 3), 1, 0).sum(), np.where(a > 0, 1, 0).sum(axis=0))", [[FA], [F([4.0, -4.0])]], ["np.where"])
    E("np.where:mixed-dtypes", "c, a", "(np.where(c, a, 0), np.where(c, a, 0.5), np.where(c, 1, 0.0))", [[B([True, False, True]), Iv([1, 2, 3])]], ["np.where"])
    E("np.where:1arg", "a", "np.where(a > 0)", [[FA]], ["np.where"])
    # operators on arrays
    E("arr-op:arith", "a, b", "(a + b, a - b, a * b, a / b, -a, a + 1, 2 * a, a / 2, 1 / b, a - 0.5)", [[FA, F([2.0, 4.0, -1.0, 0.5, 8.0, 1.0])], [IA, Iv([1, 2, 3, 4, 5])], [E0, E0], [ONE, FA], [F2, F([1.0, 2.0, 4.0])], [F2, F([[2.0], [4.0]])]], [])
    E("arr-op:int-truediv", "a, b", "(a / b, a / 2, a * 0.5, a + 0.5, a * 1.0)", [[IA, Iv([1, 2, 3, 4, 5])]], [])
    E("arr-op:floordiv-mod", "a, b", "(a // b, a % b)", [[IA, 2], [Iv([7, -7, 6, 0]), 3], [FA, 2], [F([7.5, -7.5, 0.75]), 0.5], [IA, Iv([2, 3, 2, 3, 2])]], [])
    E("arr-op:floordiv-negative-divisor", "a, b", "(a // b, a % b)", [[IA, -2]], [])
    E("arr-op:pow", "a", "(a ** 2, a ** 3, a ** 0.5, a ** -1, a ** 2.0, a ** 0, 2 ** a)", [[FP]], [])
    E("arr-op:pow-int", "a", "(a ** 2, a ** 0, a ** 3)", [[IA]], [])
    E("arr-op:int-negative-power", "a", "a ** -1", [[Iv([1, 2, 4])]], [])
    E("arr-op:compare", "a, b", "(a < b, a <= b, a > b, a >= b, a == b, a != b, a > 0, 0 < a)", [[FA, F([2.0, -2.5, 0.0, 3.25, -1.0, 2.5])], [IA, 0], [E0, 1.0], [IA, F([3.0, -2.5, 0.0, 7.5, -5.0])]], [])
    E("arr-op:bool", "p, q", "(p & q, p | q, ~p, p * q, p + q, p ^ q if False else p, p == q, p.sum(), (p & q).sum())", [[B([True, True, False, False]), B([True, False, True, False])], [B([]), B([])]], ["arr.sum"])
    E("arr-op:bool-from-compare", "a, t", "((a == 1) & (t == 0), (a > 0) | (t > 0), ~(a > 0), (a + t == 4) & (a - t == 0))", [[Iv([1, 2, 2, 1]), Iv([0, 2, 0, 3])]], [])
    E("arr-op:int-bitand", "a, b", "a & b", [[Iv([6, 3]), Iv([3, 5])]], [])
    E("arr-op:complex", "z, w", "(z + w, z * w, z / w, z * 2, z - 1j, z * np.conj(w), (z * np.conj(z)).real, z == w)", [[CA, C([2.0, 1j, -1 + 1j, 0.5])], [CA, F([1.0, 2.0, 4.0, -0.5])]], [])
    E("arr-op:float-complex-mix", "a, z", "(a * z, a + z, a * 1j, a / (1 + 1j))", [[F([1.0, 2.0, 4.0, -0.5]), CA]], [])
    E("arr-op:broadcast", "a, v", "(a + v, a * v[np.newaxis, :], a - a.mean(axis=0), a / a.sum(axis=1)[:, np.newaxis], v[:, np.newaxis] * v[np.newaxis, :])", [[F([[1.0, 2.0, 3.0], [4.0, 5.0, 7.0]]), F([1.0, 0.5, 0.25])]], ["arr.mean", "arr.sum"])
    E("arr-op:broadcast-mismatch", "a, v", "a + v", [[F2, F([1.0, 2.0])], [F([1.0, 2.0]), F([1.0, 2.0, 3.0])]], [])
    E("arr-op:array-scalar-types", "a", "(a[0] + 1, a[0] / 2, a[0] * a[1], a.sum() / len(a), a[0] // 2, a[0] % 2, a[0] ** 2)", [[IA], [FA]], [])
    E("arr-op:list-operand", "a", "(a + [1, 2, 3], a * [2.0, 2.0, 2.0], [1, 2, 3] - a)", [[F([1.0, 2.0, 3.0])], [Iv([1, 2, 3])]], [])
    E("arr-op:matmul-operator", "a, b", "(a @ b, b.T @ a.T)", [[F([[1.0, 2.0], [3.0, 4.0]]), F([[0.5, -1.0], [2.0, 1.0]])], [F([[1.0, 2.0], [3.0, 4.0]]), F([1.0, -1.0])]], ["np.matmul"])
    E("arr-op:float32-values", "a", "(a * 2, a + a, a.sum())", [[F32([0.5, 0.25, 2.0])], [I32([1, 2, 3])]], [])
    E("arr-op:dtype-attr", "a", "(a.dtype == 'complex128', a.dtype == 'float64', a.dtype == np.float64, a.dtype == 'bool', a.dtype == 'int64', a.dtype == np.complex128)",
      [[CA], [FA], [IA], [B([True])], [C64([1j])], [F32([1.0])]], ["arr.dtype"])
    E("arr-op:dtype-attr:python-types-and-int32", "a", "(a.dtype == int, a.dtype == float, a.dtype == 'int64', a.dtype == 'int32')", [[FA], [IA], [I32([1])]], ["arr.dtype"],
      limitation="dtype comparison is by class name (pyvc/lib.py dtype_eq): the python types int / float are not recognised as dtypes, int32 and int64 are one class; the repository only compares with the strings 'bool' / 'complex128'")
    E("arr-op:attrs", "a", "(a.shape, a.ndim, a.size, a.shape[0], len(a), a.T.shape)", [[F2], [FA], [E02], [F(1.5)], [E0]], [])
    P("arr-op:inplace-whole", "a, b", """
        a += b
        a *= 2
        a -= 1
        a /= 4
        return a
    """, [[F([1.0, 2.0, 3.0]), F([0.5, 0.5, 0.5])], [F([[1.0, 2.0], [3.0, 4.0]]), F([1.0, -1.0])], [F([1.0, 2.0]), 3], [E0, 1.0]], [])
    P("arr-op:inplace-int", "a", """
        a += 2
        a *= 3
        a -= 1
        a //= 2
        a %= 5
        return a
    """, [[Iv([1, -2, 3])]], [])
    P("arr-op:inplace-int-truediv", "a", "a /= 2\nreturn a", [[Iv([2, 4])]], [])
    P("arr-op:inplace-int-plus-float", "a", "a += 0.5\nreturn a", [[Iv([2, 4])]], [])
    P("arr-op:inplace-int-times-float-array", "a, b", "a *= b\nreturn a", [[Iv([2, 4]), F([1.0, 2.0])]], [])
    P("arr-op:inplace-float-plus-complex", "a", "a += 1j\nreturn a", [[F([2.0, 4.0])]], [])
    P("arr-op:inplace-complex", "z, a", "z += a\nz *= 1j\nz /= 2\nreturn z", [[C([1 + 1j, 2.0]), F([1.0, -1.0])]], [])
    P("arr-op:inplace-bool-and", "m, n", "m &= n\nreturn m", [[B([True, True, False]), B([True, False, False])]], [])
    P("arr-op:inplace-bool-or", "m, n", "m |= n\nreturn m", [[B([True, False, False]), B([False, False, True])]], [])
    P("arr-op:inplace-broadcast", "a, v", "a -= v\na /= v[np.newaxis, :]\nreturn a", [[F([[1.0, 2.0], [3.0, 5.0]]), F([1.0, 2.0])]], [])
    P("arr-op:inplace-shape-mismatch", "a, v", "a += v\nreturn a", [[F([1.0, 2.0]), F([[1.0, 2.0], [3.0, 4.0]])]], [])
    P("arr-op:inplace-element", "a", """
        a[0] += 1
        a[1] *= 2
        a[-1] -= 0.5
        a[2] /= 4
        return a
    """, [[F([1.0, 2.0, 3.0, 4.0])]], [])
    P("arr-op:inplace-element-int-array", "a", "a[0] += 1.7\na[1] = 2.9\na[2] = -2.9\nreturn a", [[Iv([1, 2, 3])]], [])
    P("arr-op:inplace-element-complex-into-float", "a, z", "a[0] += z\nreturn a", [[F([1.0, 2.0]), CX(1.0, 2.0)]], [])
    P("arr-op:inplace-row", "a, v", "a[0] += v\na[1, :] *= 2\na[:, 0] -= 1\nreturn a", [[F([[1.0, 2.0], [3.0, 4.0]]), F([10.0, 20.0])]], [])
    P("arr-op:inplace-row-scaled", "a, i, n", "a[i] /= n\nreturn a", [[F([[1.0, 2.0], [3.0, 4.0]]), 1, 4], [C([[1j, 2.0]]), 0, 2]], [])
