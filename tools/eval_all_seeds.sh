#!/bin/bash
# tools/eval_all_seeds.sh [-P n] [seed ids...] : evaluates every seeded change (tools/eval_seed.sh) n at a time; summary on stdout
cd "$(dirname "$0")/.."
P=2; if [ "$1" = "-P" ]; then P=$2; shift 2; fi
ids="$@"; [ -z "$ids" ] && ids=$(ls seeded)
for s in $ids; do
  m=seeded/$s/meta.json
  chk=$(python3 -c "import json;d=json.load(open('$m'));print(d.get('check', d.get('property','${s%%-*}')))" 2>/dev/null)
  echo "$s ${chk:-${s%%-*}}"
done | xargs -P $P -L 1 tools/eval_seed.sh
