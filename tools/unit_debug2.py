"""like unit_debug.py but prints every failed sub-query of every obligation (kind, reason, ms)"""
import sys, os, time; sys.path.insert(0, os.path.dirname(os.path.dirname(os.path.abspath(__file__))))
os.environ.setdefault('PYVC_REPO', '/repo')
from pyvc import vc, interp
interp.REPO = os.environ["PYVC_REPO"]
import importlib
prop, case = sys.argv[1], sys.argv[2]
mod = importlib.import_module(f"contracts.{prop}")
uidx = int(sys.argv[3]) if len(sys.argv)>3 else 0
r = vc.run_unit(mod.UNITS[uidx], case, "quick")
print(r.get("error")); print(r.get("trace",""))
for o in r["obligations"]:
    print(o["status"], o["ms"], o["backends"], o["name"])
    for f in (o.get("failed") or []):
        print("     FAILED:", {k: (str(v)[:300]) for k, v in f.items()})
