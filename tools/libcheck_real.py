"""Real-library side of tools/libcheck.py.  Runs under /venv/bin/python (real numpy / pandas / scipy / freud).

stdin : JSON {"header": <python source with the imports>, "snippets": [{"id", "src", "fname", "cases": [[arg, ...], ...]}, ...]}
stdout: JSON {"versions": {...}, "results": {id: [case result, ...]}}

A case result is {"ret": <plain value>, "files": {name: <plain value>}, "warnings": [category names]} or
{"exc": type name, "mro": [names], "msg": text}.  Plain values carry explicit type tags so that the comparison in libcheck.py can be
exact about int / float / bool / complex, array dtype classes and shapes:

  None | {"t":"bool","v":b} | {"t":"int","v":n} | {"t":"float","v":x | "nan" | "inf" | "-inf"} | {"t":"complex","v":[re,im]} | {"t":"str","v":s}
  {"t":"list","v":[...]} | {"t":"tuple","v":[...]} | {"t":"dict","v":[[k,v],...]} | {"t":"nd","dtype":cls,"np":numpy dtype name,"shape":[..],"v":nested}
  {"t":"df","columns":[..],"n":rows,"index":[..] | "range","cols":{str(name): nd}} | {"t":"series","name":..,"v":nd,"index":..} | {"t":"dtype","v":cls}
  {"t":"opaque","v":repr}
Argument descriptors (JSON): scalars, lists, {"__nd__": nested, "dtype": name, "shape": [...]}, {"__cx__": [re, im]}, {"__tuple__": [...]},
{"__dict__": [[k, v], ...]}, {"__file__": text} (a path of a temporary file with that content), {"__out__": suffix} (a path to be written).
"""
import io
import json
import math
import os
import shutil
import sys
import tempfile
import warnings


def dt_class(dt):
    import numpy as np
    k = np.dtype(dt).kind
    return {"b": "bool", "i": "int", "u": "int", "f": "float", "c": "complex"}.get(k, "object")


def fl(x):
    x = float(x)
    if math.isnan(x):
        return "nan"
    if math.isinf(x):
        return "inf" if x > 0 else "-inf"
    return x


def plain(v, depth=0):
    import numpy as np
    try:
        import pandas as pd
    except Exception:  # pragma: no cover
        pd = None
    if v is None:
        return None
    if isinstance(v, (bool, np.bool_)):
        return {"t": "bool", "v": bool(v)}
    if isinstance(v, (int, np.integer)):
        return {"t": "int", "v": int(v)}
    if isinstance(v, (float, np.floating)):
        return {"t": "float", "v": fl(v)}
    if isinstance(v, (complex, np.complexfloating)):
        return {"t": "complex", "v": [fl(v.real), fl(v.imag)]}
    if isinstance(v, str):
        return {"t": "str", "v": v}
    if isinstance(v, np.ndarray):
        cls = dt_class(v.dtype)

        def conv(x):
            if isinstance(x, list):
                return [conv(y) for y in x]
            if cls == "complex":
                return [fl(x.real), fl(x.imag)]
            if cls == "float":
                return fl(x)
            if cls == "object":
                return plain(x, depth + 1)
            return x
        return {"t": "nd", "dtype": cls, "np": str(v.dtype), "shape": list(v.shape), "v": conv(v.tolist()), "writeable": bool(v.flags.writeable)}
    if pd is not None and isinstance(v, pd.DataFrame):
        idx = v.index
        index = "range" if isinstance(idx, pd.RangeIndex) and idx.start == 0 and idx.step == 1 else [plain(x) for x in idx.tolist()]
        return {"t": "df", "columns": [plain(c) for c in v.columns.tolist()], "n": int(len(v)), "index": index,
                "cols": [plain(v.iloc[:, j].to_numpy()) for j in range(v.shape[1])]}
    if pd is not None and isinstance(v, pd.Series):
        idx = v.index
        index = "range" if isinstance(idx, pd.RangeIndex) and idx.start == 0 and idx.step == 1 else [plain(x) for x in idx.tolist()]
        return {"t": "series", "name": plain(v.name), "v": plain(v.to_numpy()), "index": index}
    if isinstance(v, np.dtype):
        return {"t": "dtype", "v": dt_class(v), "np": str(v)}
    if isinstance(v, list):
        return {"t": "list", "v": [plain(x, depth + 1) for x in v]}
    if isinstance(v, tuple):
        return {"t": "tuple", "v": [plain(x, depth + 1) for x in v]}
    if isinstance(v, dict):
        return {"t": "dict", "v": [[plain(k), plain(x, depth + 1)] for k, x in v.items()]}
    if isinstance(v, (set, frozenset)):
        return {"t": "set", "v": sorted([plain(x) for x in v], key=repr)}
    if isinstance(v, range):
        return {"t": "list", "v": [plain(x) for x in v]}
    if pd is not None and isinstance(v, pd.Index):
        return {"t": "list", "v": [plain(x) for x in v.tolist()]}
    return {"t": "opaque", "v": repr(v)[:200]}


class Env:
    def __init__(self):
        self.dir = tempfile.mkdtemp(prefix="libcheck-real-")
        self.outs = {}
        self.k = 0

    def arg(self, d):
        import numpy as np
        if isinstance(d, list):
            return [self.arg(x) for x in d]
        if isinstance(d, dict):
            if "__nd__" in d:
                dt = np.dtype(d["dtype"])

                def conv(x):
                    if isinstance(x, list):
                        return [conv(y) for y in x]
                    if isinstance(x, dict):
                        return complex(*x["__cx__"])
                    return x
                a = np.array(conv(d["__nd__"]), dtype=dt)
                if "shape" in d:
                    a = a.reshape(d["shape"])
                return a
            if "__cx__" in d:
                return complex(*d["__cx__"])
            if "__tuple__" in d:
                return tuple(self.arg(x) for x in d["__tuple__"])
            if "__dict__" in d:
                return {self.arg(k): self.arg(v) for k, v in d["__dict__"]}
            if "__file__" in d:
                self.k += 1
                p = os.path.join(self.dir, f"in{self.k}.txt")
                with open(p, "w") as f:
                    f.write(d["__file__"])
                return p
            if "__out__" in d:
                self.k += 1
                name = f"out{self.k}{d['__out__']}"
                p = os.path.join(self.dir, name)
                self.outs[name] = p
                return p
            raise ValueError(f"argument descriptor {d}")
        return d

    def read_outs(self):
        import numpy as np
        res = {}
        for name, p in self.outs.items():
            cands = [p, p + ".npy"]
            q = next((c for c in cands if os.path.exists(c)), None)
            if q is None:
                res[name] = None
                continue
            if q.endswith(".npy"):
                res[name] = {"kind": "npy", "v": plain(np.load(q, allow_pickle=False))}
            else:
                with open(q) as f:
                    res[name] = {"kind": "text", "v": f.read()}
        return res

    def close(self):
        shutil.rmtree(self.dir, ignore_errors=True)


def run_case(fn, case):
    env = Env()
    try:
        args = [env.arg(a) for a in case]
        with warnings.catch_warnings(record=True) as w:
            warnings.simplefilter("always")
            try:
                old = sys.stdout
                sys.stdout = io.StringIO()
                try:
                    ret = fn(*args)
                finally:
                    sys.stdout = old
            except Exception as e:  # the snippet raises: part of the observable behaviour
                return {"exc": type(e).__name__, "mro": [c.__name__ for c in type(e).__mro__], "msg": str(e)[:300]}
        out = {"ret": plain(ret), "warnings": sorted({x.category.__name__ for x in w})}
        files = env.read_outs()
        if files:
            out["files"] = files
        return out
    finally:
        env.close()


def main():
    req = json.load(sys.stdin)
    import numpy as np
    versions = {"python": sys.version.split()[0], "numpy": np.__version__}
    for m in ("pandas", "scipy", "freud", "sympy"):
        try:
            versions[m] = __import__(m).__version__
        except Exception as e:
            versions[m] = f"unavailable ({type(e).__name__})"
    results = {}
    for sn in req["snippets"]:
        ns = {}
        try:
            exec(compile(req["header"] + "\n" + sn["src"], f"<snippet {sn['id']}>", "exec"), ns)
            fn = ns[sn["fname"]]
        except Exception as e:
            results[sn["id"]] = [{"exc": "SnippetError", "mro": [], "msg": f"{type(e).__name__}: {e}"}] * len(sn["cases"])
            continue
        results[sn["id"]] = [run_case(fn, c) for c in sn["cases"]]
    json.dump({"versions": versions, "results": results}, sys.stdout)


if __name__ == "__main__":
    main()
