#!/bin/bash
# tools/resolve_ours.sh <file> [--theirs]: resolve the conflicting hunks of <file> in favour of ours (or theirs), keep clean hunks from both
f=$1; side=${2:---ours}
git show :1:$f > /tmp/_base; git show :2:$f > /tmp/_ours; git show :3:$f > /tmp/_theirs
git merge-file $side -p /tmp/_ours /tmp/_base /tmp/_theirs > $f
