#!/usr/bin/env python3
"""print the prompt given to an independent mutation sub-agent for one property (only the property text + its worktree)"""
import json, sys
pid, wt = sys.argv[1], sys.argv[2]
focus = sys.argv[3] if len(sys.argv) > 3 else ""      # optional: substring(s) of the property's own anchored mechanisms to concentrate on
p = [json.loads(l) for l in open('/verif/properties.jsonl') if json.loads(l)['id'] == pid][0]
print(f"""You are working on a scratch git worktree of the Python library yuanchaohu/pymattersim (analysis of molecular-simulation trajectories) at {wt} . Work ONLY inside {wt}. Never read or write /repo or /verif (they are off limits). Use the interpreter /venv/bin/python with PYTHONPATH={wt} so that the worktree's copy of the package `PyMatterSim` is the one imported (check with: cd {wt} && PYTHONPATH={wt} /venv/bin/python -c "import PyMatterSim; print(PyMatterSim.__file__)"). There is no network.

A semantic property that the library is supposed to satisfy:

  id: {p['id']}
  title: {p['title']}
  statement: {p['statement']}
  holds for: {p['quantifier']['text']}
  code it is anchored in: {json.dumps(p['anchors'].get('mechanism'))}
  observed at: {json.dumps(p['anchors'].get('observe_at'))}

Your task: act as a realistic source of regressions. Produce TWO independent, small changes to the library source (files under {wt}/PyMatterSim/ only; each change applies on its own to the clean checkout) such that each change
  (a) BREAKS the property above (for some inputs the statement becomes false),
  (b) still imports/compiles, and the existing test-suite still passes exactly as before: every test that passes on the clean checkout must still pass with your change (on the clean checkout roughly 90-95 tests pass and a handful fail for environment reasons: 2 voropp tests, 2 gsd tests, possibly a few more - those may keep failing). Run the test files relevant to the files you touch, e.g. `cd {wt} && PYTHONPATH={wt} /venv/bin/python -m pytest -q -p no:cacheprovider --timeout=900 tests/<subdir>/<file>_test.py`; do NOT run the whole suite (it takes 10-25 minutes and the machine is shared; it will be run by someone else afterwards): run every test file that imports a module you changed, directly or indirectly (grep the tests/ directory), one pytest process at a time,
  (c) is NOT exposed by ordinary use at once: it should need something specific to manifest — an unusual but valid input (e.g. a branch the tests never execute, a particular parameter combination, sizes, a box origin, tilt sign, unequal masses, more species, particular frame counts...), a multi-step sequence of calls, or two cooperating sites that each look fine alone. Prefer plausible developer mistakes (refactoring slips, off-by-one, wrong index/variable, swapped arguments, wrong constant, missing copy, changed comparison) over contrived sabotage. Make the two changes different in kind and location (spread them over the different mechanisms the property is anchored in).{(" This time concentrate on these anchored mechanisms of the property (earlier changes already covered the others): " + focus + ".") if focus else ""}
For each change write a demonstration program demo.py (plain Python, run as `PYTHONPATH={wt} /venv/bin/python demo.py`, self-contained: builds its own inputs/temporary files under a tempfile.mkdtemp(), does not depend on the current directory) that exits 0 on the clean checkout and exits non-zero (assertion failure with a clear message) when the change is applied. The demo should check the property's statement against an independent straightforward computation, not against stored numbers.

Deliverables (create these directories): {wt}/_out/1/, {wt}/_out/2/ each containing
  patch.diff   (output of `git -C {wt} diff -- PyMatterSim` for that change alone, applicable with `git apply` on the clean checkout)
  demo.py
  meta.json    {{"property": "{p['id']}", "summary": "...what was changed...", "needs_to_manifest": "...", "files_changed": [...], "tests_run": "...what you ran and the pass/fail counts...", "demo_clean_exit": 0, "demo_mutated_exit": <n>}}
After producing each change, restore the checkout (`git -C {wt} checkout -- PyMatterSim`) before starting the next, and verify at the end that each patch applies to the clean checkout, that demo.py passes clean and fails mutated. Leave the worktree clean (apart from _out/). Your final answer: a few lines per change (what, where, what it needs to manifest, test results).""")
