NOTES = ("Exit codes of ./check: 0 held, 1 violation (VIOLATION line), 2 undecided (unsupported construct / solver unknown, no VIOLATION line), "
         "3 checker fault. Known findings: known_findings.json. Ledger of obligation verdicts on the pinned tree: baseline/ledger.json.")

_PENDING = "not yet brought under contract in this build round; see DESIGN.md Part II for the planned contracts"

CHECKS = {
    "C02": {
        "text": "remove_pbc (real AST, re-read every run), for d in {2,3}, input shape (n,d) with symbolic n (at a symbolic row) or (d,), "
                "every cell matrix with det != 0 (general and diagonal), every periodicity mask in {0,1}^d (enumerated): result - r is "
                "minus the sum of rint(m_k) ppp_k H[k,:] with m = r H^-1 (integer multiples of periodic cell vectors only); the fractional "
                "coordinates of the result are m_k - rint(m_k) ppp_k (in [-1/2,1/2] for periodic axes by the rint lemma, untouched "
                "otherwise); shift invariance away from ties, idempotence and oddness by a second symbolic run of the real body on the "
                "transformed input; shortest image for diagonal cells; inputs not written. Rational-function identities are decided by "
                "the ring normaliser (normal form), rounding lemmas by SMT (linear integer/real arithmetic).",
        "note": "floats as reals (A1); assumed contracts of np.linalg.inv (adjugate/det, requires det != 0), np.rint (round half to even), "
                "np.dot, np.array; the ring normaliser pyvc/ring.py and the rewrite step (a proved lemma instance applied to a matching "
                "atom) are trusted; refutations are exact rational assignments replayed on the real function",
    },
    "C08": {
        "text": "For l = 1..10 and every m the value returned at index m+l by the real SphHarm{l} (AST re-read every run) equals the "
                "Condon-Shortley Y_lm generated from the Legendre recurrence in exact rationals, identically in theta and phi "
                "(SMT unsat per entry); order m=-l..l, conjugation symmetry on the returned values, the addition theorem as a lemma on "
                "the spec; SphHarm_above for symbolic l > 10 against the assumed scipy contract (both arms of the optional import); "
                "the dispatcher returns the table of the requested degree for l = 1..10 and l > 10 (callee contracts).",
        "note": "floats as reals (A1); cos/sin/sqrt uninterpreted with the axioms of pyvc/axioms.py, sin(theta) >= 0 on [0, pi], parity of "
                "cos/sin, sqrt(q t) = sqrt(q) sqrt(t); scipy's sph_harm / sph_harm_y assumed to return Y_n^m (2 pi-periodic in azimuth); "
                "module import checked by a CPython probe",
    },
    "C12": {
        "text": "For all real r, epsilon, sigma, r_c > 0, exponents n, alpha and prefactor A, both shift settings: the triple returned by "
                "each of the three model methods (real AST, re-read every run) equals (ds/dr, ds/dr(r_c)|0, d2s/dr2) of the documented "
                "potential, the derivatives being produced by symbolic differentiation of the documented s(r); the selector returns the "
                "triple of the requested model (callee contracts, not bodies). Every obligation is an SMT unsat result.",
        "note": "floats as reals (A1); symbolic exponents via uninterpreted POW with shift axioms; differentiation rules of pyvc/diff.py "
                "trusted; Hertz: documented convention r_c = sigma, alpha > 1, r < sigma as precondition",
    },
}

NOT_APPLICABLE = {p: _PENDING for p in
                  ["C01", "C03", "C04", "C05", "C06", "C07", "C09", "C10", "C11", "C13", "C14", "C15", "C16", "C17", "C18", "C19", "C20"]}
