NOTES = ("Exit codes of ./check: 0 held, 1 violation (VIOLATION line), 2 undecided (unsupported construct / solver unknown, no VIOLATION line), "
         "3 checker fault. Known findings: known_findings.json. Ledger of obligation verdicts on the pinned tree: baseline/ledger/<ID>.json. "
         "The claim text and note of each check live in contracts/<ID>.py (MANIFEST = {...}); tools/gen_manifest.py collects them.")

_PENDING = "not yet brought under contract in this build round; see DESIGN.md Part II for the planned contracts"

ALL = ["C%02d" % k for k in range(1, 21)]

# properties deliberately not claimed, with the reason (overrides _PENDING)
NOT_APPLICABLE_REASONS = {}
