"""libcheck corpus: closed-form contracts on RANDOM inputs (seeded): a few dozen cases each, base table, concrete and symbolic-length
mode.  Values carry three decimals ending in an odd digit so that no sample sits on a decimal bin edge / rounding tie (those are the
declared A1 limitations, exercised separately)."""
from libcheck_corpus import B, C, E, F, Iv, P

N = 30


def _f(rng, lo=-4.0, hi=4.0):
    return round(rng.uniform(lo, hi), 2) + rng.choice([0.001, 0.003, 0.007, -0.001, -0.003])


def _fa(rng, n, lo=-4.0, hi=4.0):
    return [round(_f(rng, lo, hi), 3) for _ in range(n)]


def _mat(rng, n, m, lo=-3.0, hi=3.0):
    return [[round(_f(rng, lo, hi), 3) for _ in range(m)] for _ in range(n)]


def _wellcond(rng, d):
    while True:
        m = [[rng.choice([-2.0, -1.0, -0.5, 0.0, 0.5, 1.0, 2.0, 3.0]) for _ in range(d)] for _ in range(d)]
        for i in range(d):
            m[i][i] += rng.choice([4.0, 5.0, -5.0])
        return m


def register(rng):
    base = dict(props=[None])
    E("rand:np.histogram", "x, nb, hi", "np.histogram(x, bins=nb, range=(0, hi))", [[F(_fa(rng, rng.randint(0, 9), -0.5, 3.5)), rng.randint(1, 7), rng.choice([1.0, 2.5, 3.0])] for _ in range(N)], ["np.histogram"], **base)
    E("rand:np.histogram:weights", "x, w, nb, hi", "np.histogram(x, bins=nb, range=(0, hi), weights=w)[0]", [(lambda n: [F(_fa(rng, n, -0.5, 3.5)), F(_fa(rng, n)), rng.randint(1, 6), rng.choice([2.0, 3.0])])(rng.randint(0, 8)) for _ in range(N)], ["np.histogram"], **base)
    E("rand:np.histogram:masked", "x, t, nb", "(np.histogram(x[t == 1], bins=nb, range=(0, 3.0))[0], np.histogram(x[(t == 1) | (t == 2)], bins=nb, range=(0, 3.0))[0])", [(lambda n: [F(_fa(rng, n, 0.0, 3.0)), Iv([rng.randint(1, 3) for _ in range(n)]), rng.randint(1, 5)])(rng.randint(1, 8)) for _ in range(N)], ["np.histogram"], **base)
    E("rand:np.rint-round", "a", "(np.rint(a), np.round(a), np.round(a, 6), np.floor(a), np.ceil(a), np.trunc(a), a.astype(int))", [[F(_fa(rng, rng.randint(1, 6), -30, 30))] for _ in range(N)], ["np.rint", "np.round", "np.floor", "np.ceil", "np.trunc", "arr.astype"], **base)
    E("rand:int-round-scalars", "x, y", "(int(x), round(x), int(x / y), int(x // y), x // y, x % y, round(x, 6), math.floor(x), abs(x))", [[round(_f(rng, -40, 40), 3), round(abs(_f(rng, 0.2, 5)) + 0.1, 3)] for _ in range(N)], ["int", "round", "math.floor", "abs"], **base)
    E("rand:int-floordiv-mod", "a, b", "(a // b, a % b, -a // b, a // -b, (a // b) * b + a % b == a)", [[rng.randint(-60, 60), rng.randint(1, 9)] for _ in range(N)], [], **base)
    E("rand:array-floordiv-mod", "a, b", "(a // b, a % b, a // 3, a % 3)", [(lambda n: [Iv([rng.randint(-30, 30) for _ in range(n)]), Iv([rng.randint(1, 7) for _ in range(n)])])(rng.randint(1, 6)) for _ in range(N)], [], **base)
    E("rand:pbc-wrap", "r, h, p", "np.dot(np.dot(r, np.linalg.inv(h)) - np.rint(np.dot(r, np.linalg.inv(h))) * p, h)", [(lambda d: [F(_mat(rng, rng.randint(1, 4), d, -12, 12)), F(_wellcond(rng, d)), Iv([rng.randint(0, 1) for _ in range(d)])])(rng.choice([2, 3])) for _ in range(N)],
      ["np.dot", "np.linalg.inv", "np.rint"], tol=1e-9, **base)
    E("rand:linalg.inv", "h", "(np.linalg.inv(h), np.linalg.det(h))", [[F(_wellcond(rng, rng.choice([1, 2, 3])))] for _ in range(N)], ["np.linalg.inv", "np.linalg.det"], tol=1e-9, **base)
    E("rand:dot-matmul-norm", "a, b", "(np.dot(a, b), a @ b, np.matmul(a, b), np.linalg.norm(a, axis=1), np.linalg.norm(b), np.trace(np.dot(a, b)) if a.shape[0] == b.shape[1] else 0)",
      [(lambda n, k, m: [F(_mat(rng, n, k)), F(_mat(rng, k, m))])(rng.randint(1, 3), rng.randint(1, 3), rng.randint(1, 3)) for _ in range(N)], ["np.dot", "np.matmul", "np.linalg.norm", "np.trace"], tol=1e-10, **base)
    E("rand:reductions", "a", "(a.sum(), a.sum(axis=0), a.sum(axis=1), a.mean(), a.mean(axis=0), a.min(), a.max(), a.min(axis=0), np.prod(a, axis=1), (a > 0).sum(), (a > 0).any(), (a > 0).all())",
      [[F(_mat(rng, rng.randint(1, 4), rng.randint(1, 3)))] for _ in range(N)], ["arr.sum", "arr.mean", "arr.min", "arr.max", "np.prod", "arr.any", "arr.all"], tol=1e-10, **base)
    E("rand:slices", "a, i, j", "(a[i:j], a[i:], a[:j], a[i:j].shape, a[i:j].sum(), a[-2:], a[i:i], a[1:][i:j])", [[F(_fa(rng, rng.randint(0, 7))), rng.randint(-9, 9), rng.randint(-9, 9)] for _ in range(2 * N)], ["arr.sum"], modes=["conc"], **base)
    E("rand:slices-2d", "a, i, j", "(a[i:j], a[:, i:j], a[i:j, 1], a[i:j, :1].shape)", [[F(_mat(rng, rng.randint(1, 5), 3)), rng.randint(-6, 6), rng.randint(-6, 6)] for _ in range(N)], [], modes=["conc"], **base)
    E("rand:fancy-index", "a, idx", "(a[idx], a[idx][::1] if False else a[idx].sum(), a[idx].shape)", [(lambda n: [F(_fa(rng, n)), Iv([rng.randint(0, n - 1) for _ in range(rng.randint(0, 6))], shape=None)])(rng.randint(1, 7)) for _ in range(N)], ["arr.sum"], **base)
    E("rand:mask-select", "a, m", "(a[m], a[~m], a[m].sum(), (a[m] * 2).sum(), len(a[m]), a[m].shape)", [(lambda n: [F(_fa(rng, n)), B([rng.random() < 0.5 for _ in range(n)])])(rng.randint(1, 8)) for _ in range(N)], ["masked.sum"], **base)
    P("rand:stores", "a, i, j, v", "b = a.copy()\nb[i] = v\nb[j:] += 1\nb[:i] *= 2\nc = a[j:]\nc -= 1\nreturn a, b", [(lambda n: [F(_fa(rng, n)), rng.randint(0, n - 1), rng.randint(0, n), round(_f(rng), 3)])(rng.randint(1, 7)) for _ in range(N)], ["arr.copy"], **base)
    P("rand:fancy-store", "a, idx, v", "b = a.copy()\nb[idx] = v\nc = a.copy()\nc[idx] += 1\nreturn b, c", [(lambda n, k: [F(_fa(rng, n)), Iv([rng.randint(0, n - 1) for _ in range(k)]), F(_fa(rng, k))])(rng.randint(1, 6), rng.randint(1, 4)) for _ in range(N)], ["arr.copy"], **base)
    P("rand:mask-store", "a, m, v", "b = a.copy()\nb[m] = v\nc = a.copy()\nc[m] += v\nc[~m] = 0\nreturn b, c", [(lambda n: [F(_fa(rng, n)), B([rng.random() < 0.5 for _ in range(n)]), round(_f(rng), 3)])(rng.randint(1, 7)) for _ in range(N)], ["arr.copy"], **base)
    E("rand:stack-reshape", "a, b", "(np.column_stack((a, b)), np.vstack((a, b)), np.hstack((a, b)), np.column_stack((a, b)).reshape(-1), np.array([a, b]).T, np.concatenate([a, b]))", [(lambda n: [F(_fa(rng, n)), F(_fa(rng, n))])(rng.randint(1, 5)) for _ in range(N)],
      ["np.column_stack", "np.vstack", "np.hstack", "arr.reshape", "np.array", "np.concatenate"], **base)
    E("rand:linspace-arange", "a, b, n", "(np.linspace(a, b, n), np.arange(n) * (b - a) / n + a, np.arange(n)[::1] if False else np.arange(2, n + 2))", [[round(_f(rng), 3), round(_f(rng), 3), rng.randint(2, 7)] for _ in range(N)], ["np.linspace", "np.arange"], tol=1e-11, **base)
    E("rand:where-maximum", "a, b, x", "(np.where(a > x, a, b), np.where(a > b, 1, 0), np.maximum(a, b), np.minimum(a, x), np.abs(a - b), np.sign(a))", [(lambda n: [F(_fa(rng, n)), F(_fa(rng, n)), round(_f(rng), 3)])(rng.randint(1, 6)) for _ in range(N)], ["np.where", "np.maximum", "np.minimum", "np.abs", "np.sign"], **base)
    E("rand:complex-arith", "z, w", "(z * np.conj(w), (z * np.conj(z)).real, np.abs(z) ** 2, (z / w).real, np.exp(1j * z.real).imag, (z * w).sum(), np.real(z.sum() * 2))", [(lambda n: [C([complex(round(_f(rng), 2), round(_f(rng), 2)) for _ in range(n)]), C([complex(round(_f(rng, 1, 3), 2), round(_f(rng), 2)) for _ in range(n)])])(rng.randint(1, 4)) for _ in range(N)],
      ["np.conj", "np.abs", "np.exp", "np.real"], tol=1e-10, **base)
    E("rand:transcendental", "a", "(np.sqrt(a * a + 1), np.exp(-a * a), np.cos(a) * np.sin(a), np.log(a * a + 0.5), np.arccos(np.cos(a)), np.arctan2(a, a[::1] if False else a + 1), np.power(np.abs(a) + 1, 1.5))", [[F(_fa(rng, rng.randint(1, 4), -3, 3))] for _ in range(N)],
      ["np.sqrt", "np.exp", "np.cos", "np.sin", "np.log", "np.arccos", "np.arctan2", "np.power"], tol=1e-10, **base)
    E("rand:percent-format", "i, x, y", "('%d %d %.6f %.8f\\n' % (i, -i, x, y), f'{i} {x:.6f}', '%d' % x, ' '.join(map(str, [i, i + 1])))", [[rng.randint(-99, 99), round(_f(rng, -50, 50), 3) + 1.3e-7, round(_f(rng), 3) + 3.1e-9] for _ in range(N)], ["str.join", "map", "str"], cat="text", modes=["conc"], **base)
    E("rand:groupby-mean", "q, s", "pd.DataFrame({'q': q, 'S': s}).groupby('q').mean().reset_index()", [(lambda n: [F([rng.choice([0.5, 1.0, 1.5, 2.25]) for _ in range(n)]), F(_fa(rng, n))])(rng.randint(1, 8)) for _ in range(N)], ["df.groupby", "groupby.mean", "groupby.reset_index"], cat="pandas", kind="rel", tol=1e-10, **base)
    E("rand:df-column-ops", "a, v", "(lambda df: (df, df['x'] + df['y'], (df['x'] * 2).values, df[['y', 'x']], df.values.sum(), df.round(6)))(pd.DataFrame(a, columns=['x', 'y']).join(pd.DataFrame({'w': v})))",
      [(lambda n: [F(_mat(rng, n, 2)), F(_fa(rng, n))])(rng.randint(1, 5)) for _ in range(N)], ["pd.DataFrame", "df.join", "df.round"], cat="pandas", tol=1e-10, **base)
