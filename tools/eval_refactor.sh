#!/bin/bash
# usage: tools/eval_refactor.sh <refactoring-id e.g. C05-r2> [check-id]
# applies refactored/<id>/patch.diff (a behaviour-preserving change) to a scratch copy of the package and runs the quick check:
# expected exit 0 (a VIOLATION line would be a false alarm; exit 2 = the proof did not go through on the refactored text).
rid=$1; prop=${2:-${rid%%-*}}
here="$(cd "$(dirname "$0")/.." && pwd)"
src=${PYVC_REPO:-/repo}
tmp=$(mktemp -d /tmp/pyvc-ref.XXXXXX)
cp -r $src/PyMatterSim $tmp/PyMatterSim
if ! patch -s -p1 -d $tmp < $here/refactored/$rid/patch.diff >/dev/null 2>&1; then echo "$rid: PATCH DOES NOT APPLY"; rm -rf $tmp; exit 9; fi
t0=$(date +%s)
out=$(cd $here && PYVC_REPO=$tmp PYVC_NO_EVIDENCE=1 PYVC_REPLAY_DIR=$tmp/replays ./check $prop --tier quick 2>&1); code=$?
t1=$(date +%s)
nviol=$(echo "$out" | grep -c "^VIOLATION")
nund=$(echo "$out" | grep -c "^UNDECIDED")
first=$(echo "$out" | grep "^FAILED-OBLIGATION\|^UNDECIDED" | head -3 | cut -c1-160 | tr '\n' ';')
echo "$rid: check=$prop exit=$code violations=$nviol undecided=$nund wall=$((t1-t0))s $first"
python3 - "$here/refactored/$rid/outcome.json" "$prop" "$code" "$nviol" "$nund" "$((t1-t0))" "$first" <<'PY'
import json, sys
p, prop, code, nv, nu, wall, first = sys.argv[1:8]
json.dump({"check": f"./check {prop} --tier quick (scratch copy of the package with the behaviour-preserving change applied)", "exit": int(code),
           "violation_lines": int(nv), "undecided_lines": int(nu), "wall_s": int(wall), "first_lines": [x for x in first.split(';') if x],
           "false_alarm": int(nv) > 0, "proof_went_through": int(code) == 0}, open(p, 'w'), indent=1)
PY
rm -rf $tmp
