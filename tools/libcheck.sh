#!/bin/bash
# differential validation of the assumed library contracts (pyvc/lib.py, pandas_model.py, text.py, relops.py, libext/*.py) against the
# real numpy / pandas / scipy / freud of /venv.  usage: tools/libcheck.sh [--filter substr] [--verbose] [--jobs N] [--no-sym] [--no-report]
# exit 0 iff no disagreement; report: baseline/libcheck.json (not part of ./check, not in MANIFEST.json).
cd "$(dirname "$0")/.."
export PYTHONDONTWRITEBYTECODE=1
export PYTHONHASHSEED=0
exec python3-vt tools/libcheck.py "$@"
