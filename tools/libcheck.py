#!/usr/bin/env python3-vt
"""Differential validation of the ASSUMED library contracts of pyvc against the real libraries.

    python3-vt tools/libcheck.py [--filter substr] [--jobs N] [--verbose] [--list] [--no-report]

Every snippet of the corpus (tools/libcheck_corpus.py: a tiny function exercising ONE library operation the way the repository's
code under contract uses it) is executed twice on the same concrete inputs:

  (a) by the pyvc interpreter (pyvc/interp.py) with the library-contract table of pyvc/lib.py, pandas_model.py, text.py, relops.py
      and libext/*.py — once per property whose table gives a *different* contract to one of the functions the snippet names
      (tables are per property, pyvc/libext/__init__.py);
  (b) by CPython under /venv/bin/python with the real numpy / pandas / scipy / freud (tools/libcheck_real.py, one subprocess).

Results are compared exactly for ints, bools, shapes, dtype classes, container structure, exception-or-not, and to 1e-12 for
floats.  Values the engine keeps symbolic (sqrt, cos, ... are uninterpreted in the engine) are evaluated numerically by an
interpreter of ground z3 terms (`zeval`) that gives every engine symbol its intended meaning.  Snippets of kind `rel` check
RELATIONAL contracts: the symbols of the engine's result (ARGSORT(k), VAL(k), U, K(g), eigenvalues ...) are bound to the value
the real library returned and every fact the contract assumed (path assumptions, registered array facts, qfacts, QFACTS) is
evaluated — or, when auxiliary symbols stay unbound (inverse permutations, witnesses), checked for satisfiability — under that binding.

Verdict per (snippet, table, case): agree | DISAGREE | not-modelled (the engine refuses: EngineError / unresolved callee / symbolic
branch) | limitation (a disagreement the corpus declares, with the reason, as a limit of the value model A1/A2 or of the concrete
mode).  Exit status 0 iff there is no DISAGREE.  The JSON report goes to baseline/libcheck.json.

This is VALIDATION of assumptions on finitely many inputs, not proof.
"""
from __future__ import annotations

import argparse
import ast
import itertools
import json
import math
import os
import subprocess
import sys
import time
import traceback
from fractions import Fraction

ROOT = os.path.dirname(os.path.dirname(os.path.abspath(__file__)))
sys.path.insert(0, ROOT)
sys.path.insert(0, os.path.dirname(os.path.abspath(__file__)))
os.environ.setdefault("PYVC_REPO", "/repo")
sys.setrecursionlimit(20000)

import z3  # noqa: E402

from pyvc import arr as A  # noqa: E402
from pyvc import axioms, sigma, sv  # noqa: E402
from pyvc import interp as I  # noqa: E402
from pyvc import vc  # noqa: E402
from pyvc.state import State, use_state  # noqa: E402
from pyvc.sv import SV, Cx, EngineError, is_conc, norm  # noqa: E402

REAL_PY = os.environ.get("PYVC_REPLAY_PYTHON", "/venv/bin/python")
HEADER = "import math\nimport cmath\nimport re\nimport numpy as np\nimport pandas as pd\n"
PROPS = [None] + [f"C{k:02d}" for k in range(1, 21)]
FTOL = 1e-12

# ---------------------------------------------------------------------------------------------------------------------
# numeric interpretation of ground z3 terms


class Unbound(Exception):
    def __init__(self, name, args=()):
        self.name, self.args_ = name, args
        super().__init__(f"{name}{tuple(args)}")


def _exact(x):
    return isinstance(x, (int, Fraction)) and not isinstance(x, bool)


def _approx_eq(a, b, tol=1e-9):
    if isinstance(a, bool) or isinstance(b, bool):
        return bool(a) == bool(b)
    if _exact(a) and _exact(b):
        return a == b
    a, b = float(a), float(b)
    return abs(a - b) <= tol * max(1.0, abs(a), abs(b))


def _le(a, b, tol=1e-9):
    # order comparisons are exact (facts are also met in simplified, negated forms: a tolerance on <= would become a strict margin
    # under the negation); only equalities between floats are approximate
    if _exact(a) and _exact(b):
        return a <= b
    return float(a) <= float(b)


def _lt(a, b, tol=1e-9):
    # strict inequalities are taken as they are (no tolerance): a fact `w > 0` about a tiny positive float must not fail by rounding slack
    if _exact(a) and _exact(b):
        return a < b
    return float(a) < float(b)


def _rint(x):
    if _exact(x):
        return int(sv.rint(Fraction(x)))
    return int(round(x))


def _round_dec(x, k):
    if _exact(x):
        return sv.round_dec(Fraction(x), k)
    return round(x, k)


def _sqrt(x):
    if _exact(x):
        r = sv._isqrt_frac(Fraction(x)) if x >= 0 else None
        if r is not None:
            return r
    return math.sqrt(float(x))


INTENDED = {
    "sqrt": _sqrt, "exp": lambda x: math.exp(float(x)), "log": lambda x: math.log(float(x)), "cos": lambda x: math.cos(float(x)),
    "sin": lambda x: math.sin(float(x)), "arccos": lambda x: math.acos(float(x)), "atan2": lambda y, x: math.atan2(float(y), float(x)),
    "POW": lambda a, e: float(a) ** float(e), "rintz": _rint, "round6": lambda x: _round_dec(x, 6), "round8": lambda x: _round_dec(x, 8),
    "LOG10": lambda x: math.log10(float(x)),
}


class ZEval:
    """value of a ground z3 term: Fraction / int when exact, float otherwise, bool for formulas.  `bind` maps
    (declaration name, argument values) -> value for the symbols of relational contracts."""

    def __init__(self, bind=None, tol=1e-9):
        self.bind = bind if bind is not None else {}
        self.tol = tol
        self.cache = {}
        self.unbound = []

    def __call__(self, t):
        if isinstance(t, SV):
            t = t.t
        k = t.get_id()
        if k in self.cache:
            return self.cache[k][1]
        v = self._ev(t)
        self.cache[k] = (t, v)
        return v

    def _ev(self, t):
        if z3.is_int_value(t):
            return t.as_long()
        if z3.is_rational_value(t):
            return Fraction(t.numerator_as_long(), t.denominator_as_long())
        if z3.is_true(t):
            return True
        if z3.is_false(t):
            return False
        if z3.is_quantifier(t) or not z3.is_app(t):
            raise Unbound("<quantifier>")
        d = t.decl()
        k = d.kind()
        ch = t.children()
        if k == z3.Z3_OP_ITE:
            return self(ch[1]) if self(ch[0]) else self(ch[2])
        if k == z3.Z3_OP_AND:
            return all(self(c) for c in ch)
        if k == z3.Z3_OP_OR:
            return any(self(c) for c in ch)
        if k == z3.Z3_OP_IMPLIES:
            return (not self(ch[0])) or self(ch[1])
        if k == z3.Z3_OP_NOT:
            return not self(ch[0])
        if k == z3.Z3_OP_UNINTERPRETED:
            name = d.name()
            args = tuple(self(c) for c in ch)
            key = (name, tuple(self._keyval(a) for a in args))
            if key in self.bind:
                return self.bind[key]
            if name == "pi" and not ch:
                return math.pi
            if name in INTENDED:
                return INTENDED[name](*args)
            sd = sigma.BY_DECL.get(name)
            if sd is not None:
                lo, hi = args[0], args[1]
                acc = 0
                for x in range(int(lo), int(hi)):
                    acc = acc + self(sd.body_at(z3.IntVal(x), ch[2:]))
                return acc
            self.unbound.append(key)
            raise Unbound(name, key[1])
        vals = [self(c) for c in ch]
        if k == z3.Z3_OP_ADD:
            acc = vals[0]
            for v in vals[1:]:
                acc = acc + v
            return acc
        if k == z3.Z3_OP_SUB:
            acc = vals[0]
            for v in vals[1:]:
                acc = acc - v
            return acc
        if k == z3.Z3_OP_MUL:
            acc = vals[0]
            for v in vals[1:]:
                acc = acc * v
            return acc
        if k == z3.Z3_OP_UMINUS:
            return -vals[0]
        if k == z3.Z3_OP_DIV:
            if vals[1] == 0:
                raise Unbound("division-by-zero")
            if _exact(vals[0]) and _exact(vals[1]):
                return Fraction(vals[0]) / Fraction(vals[1])
            return float(vals[0]) / float(vals[1])
        if k == z3.Z3_OP_IDIV:
            if vals[1] == 0:
                raise Unbound("division-by-zero")
            a, b = int(vals[0]), int(vals[1])
            q = a // b if b > 0 else -(a // -b)          # SMT-LIB: a = b q + r, 0 <= r < |b|
            return q
        if k == z3.Z3_OP_MOD:
            if vals[1] == 0:
                raise Unbound("division-by-zero")
            return int(vals[0]) % abs(int(vals[1]))
        if k == z3.Z3_OP_TO_REAL:
            return Fraction(vals[0]) if _exact(vals[0]) else vals[0]
        if k == z3.Z3_OP_TO_INT:
            return math.floor(vals[0])
        if k == z3.Z3_OP_IS_INT:
            return _exact(vals[0]) and Fraction(vals[0]).denominator == 1
        if k == z3.Z3_OP_EQ:
            return _approx_eq(vals[0], vals[1], self.tol)
        if k == z3.Z3_OP_DISTINCT:
            return all(not _approx_eq(a, b, self.tol) for a, b in itertools.combinations(vals, 2))
        if k == z3.Z3_OP_LE:
            return _le(vals[0], vals[1], self.tol)
        if k == z3.Z3_OP_GE:
            return _le(vals[1], vals[0], self.tol)
        if k == z3.Z3_OP_LT:
            return _lt(vals[0], vals[1], self.tol)
        if k == z3.Z3_OP_GT:
            return _lt(vals[1], vals[0], self.tol)
        if k == z3.Z3_OP_POWER:
            return float(vals[0]) ** float(vals[1])
        raise Unbound(f"<operator {d.name()}>")

    @staticmethod
    def _keyval(a):
        if isinstance(a, Fraction) and a.denominator == 1:
            return int(a)
        if isinstance(a, float) and a.is_integer():
            return int(a)
        return a


# ---------------------------------------------------------------------------------------------------------------------
# snippets as interpreter modules


def make_module(name, src):
    """an interp.Module built from source text (no file): same scan of imports / defs as for repository modules"""
    m = I.Module.__new__(I.Module)
    m.name, m.path, m.variant, m.source = name, f"<{name}>", "try", src
    m.tree = ast.parse(src)
    m.defs, m.imports, m.globals_nodes, m.has_try, m.classes = {}, {}, {}, False, {}
    m._scan(m.tree.body)
    return m


# ---------------------------------------------------------------------------------------------------------------------
# argument descriptors -> engine values


def _num(x, kind):
    if isinstance(x, dict):
        re_, im_ = x["__cx__"]
        return Cx(sv.to_frac(float(re_)) if not isinstance(re_, int) else Fraction(re_), sv.to_frac(float(im_)) if not isinstance(im_, int) else Fraction(im_))
    if kind == "bool":
        return bool(x)
    if kind == "int":
        return int(x)
    if kind == "complex":
        return Cx(Fraction(sv.to_frac(float(x))), Fraction(0))
    return Fraction(sv.to_frac(float(x)))


def _shape_of(nested):
    shp = []
    x = nested
    while isinstance(x, list):
        shp.append(len(x))
        if not x:
            break
        x = x[0]
    return tuple(shp)


class EngineEnv:
    def __init__(self, st, symlen=False):
        self.st = st
        self.k = 0
        self.outs = {}
        self.symlen = symlen      # array arguments get a SYMBOLIC leading length LEN<k> (fact LEN<k> == actual length): drives the
        self.bind = {}            # symbolic code paths of the contracts (the ones proofs use) on concrete data
        self.nsym = 0

    def sym_array(self, data, shape, kind):
        self.nsym += 1
        name = f"LEN{self.nsym}"
        n = sv.integer(name)
        self.st.facts.append(n.t == shape[0])
        self.bind[(name, ())] = shape[0]

        def pick(x, idx):
            if not idx:
                return x
            i = idx[0]
            if is_conc(i):
                if not (0 <= int(i) < len(x)):
                    # like an uninterpreted input array: SOME value (a fresh symbol — any dependence of the result on it shows up)
                    return sv.fresh_int("oob") if kind in ("int", "bool") else sv.fresh_real("oob")
                return pick(x[int(i)], idx[1:])
            if not x:
                raise EngineError("index into an empty array")
            subs = [pick(y, idx[1:]) for y in x]
            return A._pick(subs, i)
        return A.new_arr((n,) + tuple(shape[1:]), lambda idx: pick(data, tuple(idx)), kind)

    def arg(self, d):
        if isinstance(d, bool) or d is None or isinstance(d, (int, str)):
            return d
        if isinstance(d, float):
            return sv.to_frac(d)
        if isinstance(d, list):
            return I.new_list([self.arg(x) for x in d])
        if isinstance(d, dict):
            if "__nd__" in d:
                kind = A.norm_dtype(d["dtype"])
                data = d["__nd__"]
                shape = tuple(d["shape"]) if "shape" in d else _shape_of(data)

                def conv(x):
                    return [conv(y) for y in x] if isinstance(x, list) else _num(x, kind)
                if self.symlen and len(shape) >= 1 and shape[0] >= 1 and all(x > 0 for x in shape):
                    a = self.sym_array(conv(data), shape, kind)
                elif any(s == 0 for s in shape):
                    def empty(idx):
                        raise EngineError("index into an empty array")
                    a = A.new_arr(shape, empty, kind)
                elif shape == ():
                    a = A.from_nested(_num(data, kind), kind)
                else:
                    a = A.from_nested(conv(data), kind)
                if d["dtype"] not in ("float64", "int64", "bool", "complex128"):
                    self.st.heap[a.sid].meta["dtype_name"] = d["dtype"]
                self.st.origin[a.sid] = "argument"
                return a
            if "__cx__" in d:
                return _num(d, "complex")
            if "__tuple__" in d:
                return tuple(self.arg(x) for x in d["__tuple__"])
            if "__dict__" in d:
                return I.new_dict({self.arg(k): self.arg(v) for k, v in d["__dict__"]})
            if "__file__" in d:
                self.k += 1
                path = f"in{self.k}.txt"
                self.register_file(path, d["__file__"])
                return path
            if "__out__" in d:
                self.k += 1
                name = f"out{self.k}{d['__out__']}"
                self.outs[name] = name
                return name
        raise ValueError(f"argument descriptor {d!r}")

    def register_file(self, path, text):
        """the token/line model of a concrete text: one LineVal per line; numeric words are holes (Tok int / float), others literal"""
        from pyvc.text import LineVal, Tok, TokList
        lines = text.split("\n")
        if lines and lines[-1] == "":
            lines.pop()

        def tok(w):
            try:
                return Tok("int", int(w)) if not (w.startswith("+") or "_" in w) else w
            except ValueError:
                pass
            try:
                if "_" in w or w.lower() in ("nan", "inf", "-inf", "+inf", "infinity", "-infinity"):
                    return w
                float(w)
                return Tok("float", Fraction(w))
            except ValueError:
                return w
        toks = [[tok(w) for w in ln.split()] for ln in lines]

        def line_fn(pos):
            pos = norm(pos)
            if not is_conc(pos):
                raise EngineError("symbolic file position in concrete mode")
            if pos >= len(toks):
                return LineVal(None, eof=True)
            return LineVal(TokList.of(toks[int(pos)]), eof=False)
        self.st.files[path] = (0, line_fn, len(toks))


# ---------------------------------------------------------------------------------------------------------------------
# engine values -> tagged plain values (same format as tools/libcheck_real.plain); symbols stay as {"t": "sym"}


class Plainer:
    def __init__(self, st, bind=None):
        self.st = st
        self.ze = ZEval(bind)

    def scalar(self, v, want=None):
        v = norm(v)
        if isinstance(v, bool):
            return {"t": "bool", "v": v}
        if isinstance(v, int):
            return {"t": "int", "v": v}
        if isinstance(v, Fraction):
            return {"t": "float", "v": float(v), "exact": str(v)}
        if isinstance(v, Cx):
            re_, im_ = self.scalar(sv.to_real(v.re)), self.scalar(sv.to_real(v.im))
            if re_["t"] == "sym" or im_["t"] == "sym":
                return {"t": "sym", "term": None, "sort": "complex", "parts": [re_, im_]}
            return {"t": "complex", "v": [re_["v"], im_["v"]]}
        if isinstance(v, SV):
            try:
                x = self.ze(v.t)
            except Unbound as u:
                return {"t": "sym", "term": v.t, "sort": "bool" if v.is_bool else ("int" if v.is_int else "float"), "why": str(u)}
            if v.is_bool:
                return {"t": "bool", "v": bool(x)}
            if v.is_int:
                return {"t": "int", "v": int(x)}
            return {"t": "float", "v": float(x)}
        raise EngineError(f"plain scalar of {type(v).__name__}")

    def dim(self, d):
        d = norm(d)
        if is_conc(d):
            return int(d)
        try:
            return int(self.ze(d.t))
        except Unbound:
            return {"t": "sym", "term": d.t, "sort": "int"}

    def arr(self, a):
        shape = [self.dim(d) for d in a.shape]
        out = {"t": "nd", "dtype": a.dtype, "shape": shape, "writeable": not a.is_readonly()}
        if any(not isinstance(s, int) for s in shape):
            out["v"] = None
            out["arr"] = a
            return out
        r = a.reader()

        def build(prefix, k):
            if k == len(shape):
                e = self.scalar(r(tuple(prefix)))
                if e["t"] == "sym":
                    return e
                if e["t"] == "complex":
                    return e["v"]
                if a.dtype == "complex":
                    return [float(e["v"]), 0.0]
                if a.dtype == "float":
                    return float(e["v"])
                if a.dtype == "int" and e["t"] in ("bool", "float"):
                    return int(e["v"]) if float(e["v"]).is_integer() else e["v"]
                return e["v"]
            return [build(prefix + [t], k + 1) for t in range(shape[k])]
        out["v"] = build([], 0)
        return out

    def value(self, v):
        from pyvc.lib import DType, RangeVal, SeriesVal
        from pyvc.text import LineVal, MapStr, Run, Rows, Text, Tok, TokList
        v = norm(v)
        if v is None:
            return None
        if isinstance(v, str):
            return {"t": "str", "v": v}
        if sv.is_scalar(v):
            return self.scalar(v)
        if isinstance(v, A.Arr):
            return self.arr(v)
        if isinstance(v, A.Masked):
            from pyvc.relops import masked_to_arr
            return self.arr(masked_to_arr(v))
        if isinstance(v, tuple):
            return {"t": "tuple", "v": [self.value(x) for x in v]}
        if isinstance(v, list):
            return {"t": "list", "v": [self.value(x) for x in v]}
        if isinstance(v, (set, frozenset)):
            return {"t": "set", "v": sorted([self.value(x) for x in v], key=repr)}
        if isinstance(v, SeriesVal):
            return {"t": "series", "name": self.value(v.name), "v": self.arr(v.arr), "index": "range"}
        if isinstance(v, DType):
            return {"t": "dtype", "v": A.norm_dtype(v.name)}
        if isinstance(v, RangeVal):
            return {"t": "list", "v": [self.value(x) for x in v.to_range()]}
        if isinstance(v, (Text, Run, Rows)):
            return {"t": "text", "lines": self.text_lines([v])}
        if isinstance(v, I.Ref):
            c = v.content
            if v.kind == "list":
                if isinstance(c, A.SeqVal):
                    n = self.dim(c.length)
                    if not isinstance(n, int):
                        return {"t": "list", "v": None, "len": n, "seq": c}
                    return {"t": "list", "v": [self.value(c.fn(k)) for k in range(n)]}
                return {"t": "list", "v": [self.value(x) for x in c]}
            if v.kind == "dict":
                return {"t": "dict", "v": [[self.value(k), self.value(x)] for k, x in c.items()]}
            if v.kind == "df":
                return {"t": "df", "columns": [self.value(k) for k in c["order"]], "n": self.dim(c["n"]), "index": "range",
                        "cols": [self.arr(c["cols"][k]) for k in c["order"]], "meta": dict(self.st.heap[v.sid].meta)}
            if v.kind == "wdf":
                cols = [self.value(k) for k in c["pre"]["order"]]
                arrs = [self.arr(c["pre"]["cols"][k]) for k in c["pre"]["order"]]
                if c["block"] is not None:
                    lab = self.arr(c["labels"])
                    m = lab["shape"][0]
                    for j in range(m):
                        cols.append({"t": lab["dtype"], "v": lab["v"][j]})
                        arrs.append(self.arr(A.getitem(c["block"], (slice(None), j))))
                idx = "range" if c["index"] is None else [{"t": x["dtype"], "v": y} for x in [self.arr(c["index"])] for y in x["v"]]
                return {"t": "df", "columns": cols, "n": self.dim(c["n"]), "index": idx, "cols": arrs}
            if v.kind == "file":
                return {"t": "opaque", "v": "file"}
            if v.kind == "obj":
                return {"t": "opaque", "v": f"object {v.cls.name if v.cls else ''}"}
        if isinstance(v, LineVal):
            v = v.toks if v.toks is not None else TokList.of([])
        if isinstance(v, TokList):
            n = self.dim(v.n)
            toks = []
            for k in range(n):
                x = v.fn(k)
                if isinstance(x, Tok):
                    e = self.scalar(x.value)
                    toks.append({"i": int(e["v"])} if x.kind == "int" else {"f": float(e["v"])})
                else:
                    toks.append({"w": x})
            return {"t": "toklist", "v": toks}
        if isinstance(v, Tok):
            e = self.scalar(v.value)
            return {"t": "toklist", "v": [{"i": int(e["v"])} if v.kind == "int" else {"f": float(e["v"])}], "single": True}
        if isinstance(v, MapStr):
            return {"t": "opaque", "v": type(v).__name__}
        return {"t": "opaque", "v": type(v).__name__}

    def text_lines(self, items):
        """written text -> list of lines, each a list of tokens {"w": literal} | {"i": int} | {"f": float}"""
        from pyvc.text import Block, Rows, Run, Text, Tok
        flat = []

        def expand(seq):
            for it in seq:
                if isinstance(it, Block):
                    lo, hi = self.dim(it.lo), self.dim(it.hi)
                    if not (isinstance(lo, int) and isinstance(hi, int)):
                        raise EngineError("written block with unevaluable bounds")
                    for i in range(lo, hi):
                        yield from expand(it.at(i))
                else:
                    yield it
        for it in expand(items):
            for p in (it.pieces if isinstance(it, Text) else [it]):
                if isinstance(p, Rows):
                    n, w = self.dim(p.n), self.dim(p.width)
                    for i in range(n):
                        flat.append(" ")
                        for c in range(w):
                            flat.append(Tok("int", p.fn(i, c)))
                            flat.append(" ")
                        if i + 1 < n:
                            flat.append("\n")
                elif isinstance(p, Run):
                    n = self.dim(p.n)
                    for t in range(n):
                        if t:
                            flat.append(p.sep)
                        flat.append(Tok(p.kind, p.fn(t)))
                else:
                    flat.append(p)
        lines, curl, pending = [], [], ""
        for p in flat:
            if isinstance(p, str):
                for ch in p:
                    if ch == "\n":
                        if pending:
                            curl.append({"w": pending})
                            pending = ""
                        lines.append(curl)
                        curl = []
                    elif ch in " \t\r":
                        if pending:
                            curl.append({"w": pending})
                            pending = ""
                    else:
                        pending += ch
            else:
                if pending:
                    raise EngineError("a number is glued to a literal word in the written text")
                e = self.scalar(p.value)
                if e["t"] == "sym":
                    raise EngineError("symbolic token")
                curl.append({"i": int(e["v"])} if p.kind == "int" else {"f": float(e["v"])})
        if pending:
            curl.append({"w": pending})
        lines.append(curl)
        return lines


# ---------------------------------------------------------------------------------------------------------------------
# one engine run


class EngineOutcome:
    def __init__(self):
        self.kind = None          # 'ret' | 'raise' | 'not-modelled'
        self.value = None
        self.exc = None
        self.msg = ""
        self.state = None
        self.env = None
        self.lib_used = []
        self.side_failed = []
        self.side_pending = []


def run_engine(module, fname, case, prop, extern=None, symlen=False, engine_call=None):
    lib = vc.lib_for(prop)
    lib.activate()
    if extern:
        for k, v in extern.items():
            lib.extern[k] = v
    it = I.Interp(lib)
    st = State()
    out = EngineOutcome()
    out.state = st
    I.MODULE_VARIANTS.clear()
    with use_state(st):
        env = EngineEnv(st, symlen)
        out.env = env
        try:
            args = [env.arg(a) for a in case]
            if engine_call is not None:
                out.value = engine_call(it, *args)       # a contract stated outside the library tables (contracts/C08: scipy)
            else:
                fv = I.FuncVal(module, module.defs[fname])
                out.value = it.call_function(fv, args, {})
            out.kind = "ret"
        except I.PyRaise as e:
            import builtins as _bi
            missing = e.msg.split("'")[1] if e.exc_type == "NameError" and "'" in e.msg else None
            if e.exc_type == "unresolved-callee":
                out.kind, out.msg = "not-modelled", f"unresolved-callee: {e.msg}"
            elif missing and hasattr(_bi, missing):
                out.kind, out.msg = "not-modelled", f"python builtin {missing!r} has no contract"
            else:
                out.kind, out.exc, out.msg = "raise", e.exc_type, e.msg
        except A.ReadOnlyStore as e:
            out.kind, out.exc, out.msg = "raise", "ValueError", str(e)
        except A.NumpyCastingError as e:
            out.kind, out.exc, out.msg = "raise", "UFuncTypeError", str(e)
        except ZeroDivisionError as e:
            out.kind, out.exc, out.msg = "raise", "ZeroDivisionError", str(e)
        except I.Fork as e:
            out.kind, out.msg = "not-modelled", f"symbolic branch on {str(e.cond)[:80]}"
        except EngineError as e:
            out.kind, out.msg = "not-modelled", f"EngineError: {e}"
        except RecursionError:
            out.kind, out.msg = "not-modelled", "recursion limit"
        except (I._Break, I._Continue):
            out.kind, out.msg = "not-modelled", "break/continue outside loop"
        except Exception as e:      # python-level fault inside the engine
            out.kind, out.msg = "fault", f"{type(e).__name__}: {e} @ " + " <- ".join(
                f"{fr.name}:{fr.lineno}" for fr in reversed(traceback.extract_tb(e.__traceback__)[-3:]))
        # failed side obligations (the contract's precondition is violated on this input = the real call must fail)
        for so in st.side:
            if z3.is_false(so.cond):
                out.side_failed.append(so.kind)
            elif not z3.is_true(so.cond):
                try:
                    ok = ZEval(dict(env.bind))(so.cond)
                except Unbound:
                    ok = None
                if ok is None:
                    out.side_pending.append(so)       # mentions result symbols: decided by the solver, or after binding them (rel)
                if ok is False:
                    out.side_failed.append(so.kind)
        out.lib_used = sorted(it.lib_used)
    return out


# ---------------------------------------------------------------------------------------------------------------------
# comparison


class Diff(Exception):
    pass


def _isnum(x):
    return isinstance(x, (int, float)) and not isinstance(x, bool)


def close(a, b, tol=FTOL):
    if isinstance(b, str) or isinstance(a, str):
        return a == b
    return abs(a - b) <= tol * max(1.0, abs(a), abs(b))


class Comparer:
    """structural comparison engine value (tagged, may contain symbols) vs real value (tagged).  In relational mode symbols
    are collected as bindings (term -> real value) on the first pass; `diffs` lists the disagreements"""

    def __init__(self, tol=FTOL, relational=False, loose_dtype=False):
        self.tol, self.relational = tol, relational
        self.diffs = []
        self.bindings = []      # (z3 term, python value)
        self.deferred = []      # (path, engine arr/seq object, real value): symbolic shape, compare after binding
        self.nonfinite = False
        self.loose_dtype = loose_dtype

    def d(self, path, msg):
        self.diffs.append(f"{path or 'result'}: {msg}")

    def sym(self, path, e, rv, rkind):
        if not self.relational:
            self.d(path, f"engine value stays symbolic ({e.get('why') or e.get('term')}) — real {rv!r}")
            return
        if e.get("term") is None:
            for part, x in zip(e["parts"], rv):
                if part["t"] == "sym":
                    self.sym(path, part, x, "float")
                elif not close(part["v"], x, self.tol):
                    self.d(path, f"engine {part['v']!r} real {x!r}")
            return
        self.bindings.append((e["term"], rv, e["sort"]))

    def scalar(self, path, e, r):
        if e is None or r is None:
            if e is not r:
                self.d(path, f"engine {e!r} real {r!r}")
            return
        if r["t"] == "float" and isinstance(r["v"], str):
            self.nonfinite = True
            self.d(path, f"real value is {r['v']} (outside the value model A1)")
            return
        if e["t"] == "sym":
            want = e["sort"]
            if r["t"] != want and not (want == "float" and r["t"] == "int"):
                self.d(path, f"type class: engine symbol of sort {want}, real {r['t']}")
            self.sym(path, e, r["v"], r["t"])
            return
        if e["t"] == "int" and r["t"] == "float" and e["v"] == 0 and r["v"] == 0.0:
            return      # a sum over an empty (or all-false) symbolic range is the integer 0 in the engine: same number (design note)
        if e["t"] != r["t"]:
            self.d(path, f"type class: engine {e['t']} ({e['v']!r}) real {r['t']} ({r['v']!r})")
            return
        if e["t"] in ("int", "bool", "str"):
            if e["v"] != r["v"]:
                self.d(path, f"engine {e['v']!r} real {r['v']!r}")
        elif e["t"] == "float":
            if not close(e["v"], r["v"], self.tol):
                self.d(path, f"engine {e['v']!r} real {r['v']!r}")
        elif e["t"] == "complex":
            if any(isinstance(x, str) for x in r["v"]):
                self.nonfinite = True
                self.d(path, f"real value is non-finite {r['v']}")
            elif not (close(e["v"][0], r["v"][0], self.tol) and close(e["v"][1], r["v"][1], self.tol)):
                self.d(path, f"engine {e['v']!r} real {r['v']!r}")

    def nd(self, path, e, r):
        if e["dtype"] != r["dtype"] and not (self.loose_dtype and {e["dtype"], r["dtype"]} <= {"int", "float"}):
            self.d(path, f"dtype class: engine {e['dtype']} real {r['dtype']} ({r.get('np')})")
        if len(e["shape"]) != len(r["shape"]):
            self.d(path, f"rank: engine shape {e['shape']} real shape {r['shape']}")
            return
        symbolic_shape = False
        for k, (a, b) in enumerate(zip(e["shape"], r["shape"])):
            if isinstance(a, dict):
                symbolic_shape = True
                self.sym(f"{path}.shape[{k}]", a, b, "int")
            elif a != b:
                self.d(path, f"shape: engine {e['shape']} real {r['shape']}")
                return
        if symbolic_shape:
            self.deferred.append((path, e["arr"], r))
            return
        self.elems(path, e["v"], r["v"], e["dtype"], r["dtype"])

    def elems(self, path, ev, rv, edt, rdt):
        if isinstance(rv, list) and not (rdt == "complex" and len(rv) == 2 and not isinstance(rv[0], list)):
            if not isinstance(ev, list) or len(ev) != len(rv):
                self.d(path, "nested structure")
                return
            for k, (x, y) in enumerate(zip(ev, rv)):
                self.elems(f"{path}[{k}]", x, y, edt, rdt)
            return
        if isinstance(ev, dict) and ev.get("t") == "sym":
            self.sym(path, ev, rv, rdt)
            return
        if rdt == "object":
            self.scalar(path, ev if isinstance(ev, dict) or ev is None else {"t": "?", "v": ev}, rv)
            return
        if rdt == "complex":
            if any(isinstance(x, str) for x in rv):
                self.nonfinite = True
                self.d(path, f"real value is non-finite {rv}")
                return
            ev2 = ev if isinstance(ev, list) else [ev, 0.0]
            if not (close(ev2[0], rv[0], self.tol) and close(ev2[1], rv[1], self.tol)):
                self.d(path, f"engine {ev!r} real {rv!r}")
            return
        if isinstance(rv, str):
            self.nonfinite = True
            self.d(path, f"real value is {rv} (outside the value model A1)")
            return
        if isinstance(ev, list):
            self.d(path, f"engine complex {ev!r} real {rv!r}")
            return
        if rdt in ("int", "bool") and edt in ("int", "bool"):
            if ev != rv:
                self.d(path, f"engine {ev!r} real {rv!r}")
            return
        if not close(float(ev), float(rv), self.tol):
            self.d(path, f"engine {ev!r} real {rv!r}")

    def text(self, path, e, r):
        """engine token lines vs the real string"""
        rl = r.split("\n")
        el = e["lines"]
        rt = [ln.split() for ln in rl]
        if len(el) != len(rt):
            self.d(path, f"number of lines: engine {len(el)} real {len(rt)}")
            return
        for i, (a, b) in enumerate(zip(el, rt)):
            if len(a) != len(b):
                self.d(f"{path}:line{i}", f"number of tokens: engine {len(a)} real {len(b)} ({b})")
                continue
            for k, (x, y) in enumerate(zip(a, b)):
                p = f"{path}:line{i}:tok{k}"
                if "w" in x:
                    if x["w"] != y:
                        self.d(p, f"engine word {x['w']!r} real {y!r}")
                elif "i" in x:
                    try:
                        if int(y) != x["i"]:
                            self.d(p, f"engine int {x['i']} real {y!r}")
                    except ValueError:
                        self.d(p, f"engine int token {x['i']} real {y!r}")
                else:
                    try:
                        fy = float(y)
                    except ValueError:
                        self.d(p, f"engine float token {x['f']} real {y!r}")
                        continue
                    # the engine's token carries the number the formatting was given (rounded for %.6f / %.8f only): the
                    # printed decimals bound the distance
                    mant = y.lower().split("e")[0]
                    decs = len(mant.split(".")[1]) if "." in mant else 0
                    expo = int(y.lower().split("e")[1]) if "e" in y.lower() else 0
                    tol = 0.5000001 * 10.0 ** (expo - decs) + 1e-12 * max(1.0, abs(fy))
                    if abs(fy - x["f"]) > tol:
                        self.d(p, f"engine float {x['f']!r} real {y!r}")

    def value(self, path, e, r):
        if e is None or r is None:
            if e is not r:
                self.d(path, f"engine {e!r} real {r!r}")
            return
        et, rt = e["t"], r["t"]
        if et == "text" and rt == "str":
            return self.text(path, e, r["v"])
        if et == "toklist":
            # tokens of a line (str.split()) / one token: words literally, numeric holes by value
            if e.get("single") and rt == "str":
                real_toks = [r["v"]]
            elif rt == "list" and all(x is not None and x["t"] == "str" for x in r["v"]):
                real_toks = [x["v"] for x in r["v"]]
            elif rt == "str":
                real_toks = r["v"].split()
            else:
                self.d(path, f"engine token list, real {rt}")
                return
            return self.text(path, {"lines": [e["v"]]}, " ".join(real_toks)) if len(real_toks) == len(e["v"]) else self.d(path, f"number of tokens: engine {len(e['v'])} real {len(real_toks)}")
        if et == "str" and rt == "str":
            if e["v"] != r["v"]:
                self.d(path, f"engine {e['v']!r} real {r['v']!r}")
            return
        if et == "opaque" or rt == "opaque":
            if et != rt:
                self.d(path, f"engine {e} real {r}")
            return
        if et in ("bool", "int", "float", "complex", "sym") and rt in ("bool", "int", "float", "complex"):
            return self.scalar(path, e, r)
        if et == "nd" and rt in ("bool", "int", "float", "complex") and e["shape"] == []:
            # a 0-d array in the engine where numpy returns a scalar (or vice versa): same value class
            return self.elems(path, e["v"], r["v"], e["dtype"], rt)
        if rt == "nd" and et in ("bool", "int", "float", "complex") and r["shape"] == []:
            return self.elems(path, e["v"], r["v"], et, r["dtype"])
        if et != rt:
            if {et, rt} <= {"list", "tuple"} and False:
                pass
            self.d(path, f"kind: engine {et} real {rt}")
            return
        if et == "nd":
            return self.nd(path, e, r)
        if et in ("list", "tuple", "set"):
            if e["v"] is None:
                self.sym(f"{path}.len", e["len"], len(r["v"]), "int")
                self.deferred.append((path, e["seq"], r))
                return
            if len(e["v"]) != len(r["v"]):
                self.d(path, f"length: engine {len(e['v'])} real {len(r['v'])}")
                return
            for k, (x, y) in enumerate(zip(e["v"], r["v"])):
                self.value(f"{path}[{k}]", x, y)
            return
        if et == "dict":
            ek = [json.dumps(k, sort_keys=True, default=str) for k, _ in e["v"]]
            rk = [json.dumps(k, sort_keys=True, default=str) for k, _ in r["v"]]
            if ek != rk:
                self.d(path, f"dict keys: engine {ek} real {rk}")
                return
            for (k, x), (_, y) in zip(e["v"], r["v"]):
                self.value(f"{path}[{k.get('v') if isinstance(k, dict) else k}]", x, y)
            return
        if et == "df":
            ec = [(c or {}).get("v") for c in e["columns"]]
            rc = [(c or {}).get("v") for c in r["columns"]]
            if ec != rc:
                self.d(path, f"columns: engine {ec} real {rc}")
                return
            if isinstance(e["n"], dict):
                self.sym(f"{path}.n", e["n"], r["n"], "int")
            elif e["n"] != r["n"]:
                self.d(path, f"rows: engine {e['n']} real {r['n']}")
                return
            if e["index"] != r["index"]:
                ei = e["index"] if e["index"] == "range" else [x["v"] for x in e["index"]]
                ri = r["index"] if r["index"] == "range" else [x["v"] for x in r["index"]]
                if ei != ri:
                    self.d(path, f"index: engine {ei} real {ri}")
            for c, x, y in zip(ec, e["cols"], r["cols"]):
                x = dict(x)
                x.pop("writeable", None)
                self.nd(f"{path}[{c!r}]", x, y)
            return
        if et == "series":
            self.nd(f"{path}.values", e["v"], r["v"])
            if e["index"] != r["index"]:
                self.d(path, f"series index: engine {e['index']} real {r['index']}")
            return
        if et == "dtype":
            if e["v"] != r["v"]:
                self.d(path, f"dtype: engine {e['v']} real {r['v']}")
            return
        self.d(path, f"uncompared kind {et}")


EXC_ALIASES = {"UFuncTypeError": {"UFuncTypeError", "TypeError", "_UFuncOutputCastingError"}, "FrozenInstanceError": {"FrozenInstanceError", "AttributeError"}}


def _decide_pending_sides(eo, only_symbol_free=False):
    """side obligations that are not ground: fail if their negation is satisfiable under the path assumptions.  only_symbol_free
    (relational runs): only those without result symbols (uninterpreted applications); the others wait for the binding"""
    keep = []
    for so in eo.side_pending:
        if only_symbol_free and any(nm not in INTENDED and sigma.BY_DECL.get(nm) is None for nm in axioms.collect_apps([so.cond])):
            keep.append(so)
            continue
        s_ = z3.Solver()
        s_.set("timeout", 3000)
        for f in list(eo.state.facts) + list(so.pc):
            s_.add(f)
        s_.add(z3.Not(so.cond))
        if s_.check() == z3.sat:
            eo.side_failed.append(so.kind)
    eo.side_pending = keep


def compare_case(sn, eo, real, case=None):
    """-> (status, details)   status: agree | DISAGREE | not-modelled"""
    if not ((sn.get("kind") == "rel" or eo.env.symlen) and "exc" not in real and eo.kind == "ret"):
        _decide_pending_sides(eo)       # (relational runs: decided after the result symbols are bound, rel_check)
    else:
        _decide_pending_sides(eo, only_symbol_free=True)
    if eo.kind == "not-modelled":
        return "not-modelled", [eo.msg]
    if eo.kind == "fault":
        # a python exception inside the engine AFTER a side obligation already failed (e.g. a concrete out-of-range index:
        # the obligation `index-bounds` is recorded as false, then the read crashes): the engine's verdict is the failed obligation
        if eo.side_failed and "exc" in real:
            return "agree", [f"real raises {real['exc']}; engine: precondition {eo.side_failed[0]} fails (then engine fault {eo.msg[:80]})"]
        if eo.side_failed:
            return "not-modelled", [f"engine requires {eo.side_failed[0]} (stricter than the library: the real call returns normally)"]
        if "unexpected keyword argument" in eo.msg or "positional argument" in eo.msg:
            return "not-modelled", [f"the contract does not take this call form ({eo.msg[:120]})"]
        return "DISAGREE", [f"ENGINE FAULT {eo.msg}"]
    if "exc" in real:
        if real["exc"] == "SnippetError":
            return "DISAGREE", [f"snippet does not run under CPython: {real['msg']}"]
        if eo.side_failed:
            return "agree", [f"real raises {real['exc']}; engine: precondition {eo.side_failed[0]} fails"]
        if eo.kind == "raise":
            names = EXC_ALIASES.get(eo.exc, {eo.exc})
            if names & set(real["mro"]) or eo.exc in ("Exception",):
                return "agree", [f"both raise {real['exc']}"]
            return "DISAGREE", [f"exception type: engine {eo.exc} ({eo.msg}) real {real['exc']}: {real['msg']}"]
        if eo.side_failed:
            return "agree", [f"real raises {real['exc']}; engine: precondition {eo.side_failed[0]} fails"]
        return "DISAGREE", [f"real raises {real['exc']}: {real['msg']} — engine returns normally"]
    if eo.kind == "raise":
        return "DISAGREE", [f"engine raises {eo.exc}: {eo.msg} — real returns normally"]
    if eo.side_failed:
        # a failed side obligation makes every proof about this call fail: sound, the contract is just narrower than the library
        return "not-modelled", [f"engine requires {eo.side_failed[0]} (stricter than the library: the real call returns normally)"]
    with use_state(eo.state):
        pl = Plainer(eo.state, dict(eo.env.bind))
        try:
            ev = pl.value(eo.value)
            efiles = engine_files(eo, pl)
        except EngineError as e:
            return "not-modelled", [f"EngineError while reading the result: {e}"]
        relational = sn.get("kind") == "rel" or eo.env.symlen
        cmpr = Comparer(tol=sn.get("tol", FTOL), relational=relational, loose_dtype=sn.get("loose_dtype", False))
        cmpr.real = real
        if sn.get("custom"):
            cmpr.diffs.extend(sn["custom"](eo, real, pl, case) or [])
        else:
            cmpr.value("", ev, real.get("ret"))
        compare_files(cmpr, efiles, real.get("files") or {}, eo)
        if relational and not cmpr.diffs:
            rel_check(sn, eo, cmpr, pl)
    if cmpr.diffs:
        return "DISAGREE", cmpr.diffs[:6]
    return "agree", cmpr.notes if hasattr(cmpr, "notes") else []


def engine_files(eo, pl):
    """what the engine says was written: file cells opened for writing + np.save / np.savetxt / to_csv events"""
    st = eo.state
    out = {}
    for sid, c in st.heap.items():
        if c.kind == "file" and isinstance(c.data, dict) and c.data.get("mode") == "w" and c.data.get("path") in eo.env.outs:
            out[c.data["path"]] = {"kind": "text", "lines": pl.text_lines(list(c.data["items"]))}
    for ev in st.trace:
        if ev[0] == "np.save" and ev[1] in eo.env.outs:
            out[ev[1]] = {"kind": "npy", "v": pl.arr(ev[2])}
        elif ev[0] == "np.savetxt" and ev[1] in eo.env.outs:
            out[ev[1]] = {"kind": "savetxt", "v": pl.arr(ev[2]), "kw": {k: (v if isinstance(v, (str, int)) else repr(v)) for k, v in ev[3].items()}}
        elif ev[0] == "to_csv" and ev[1] in eo.env.outs:
            out[ev[1]] = {"kind": "csv", "cols": {k: pl.arr(v) for k, v in ev[2].items()}, "order": list(ev[3]), "float_format": ev[4], "n": pl.dim(ev[5])}
    return out


def compare_files(cmpr, efiles, rfiles, eo):
    for name in sorted(set(efiles) | set(rfiles)):
        e, r = efiles.get(name), rfiles.get(name)
        if r is None and e is None:
            continue
        if r is None:
            cmpr.d(f"file {name}", "engine records a write, the real call wrote nothing")
            continue
        if e is None:
            cmpr.d(f"file {name}", "the real call wrote the file, the engine records no write")
            continue
        if e["kind"] == "npy":
            if r["kind"] != "npy":
                cmpr.d(f"file {name}", "kind")
                continue
            ev = dict(e["v"])
            ev.pop("writeable", None)
            cmpr.nd(f"file {name}", ev, r["v"])
        elif e["kind"] == "text":
            cmpr.text(f"file {name}", e, r["v"])
        elif e["kind"] == "savetxt":
            a = e["v"]
            rows = a["v"] if len(a["shape"]) == 2 else [[x] for x in a["v"]]
            kind = "i" if a["dtype"] in ("int", "bool") else "f"
            lines = [[{"f": float(x)} if kind == "f" or True else {"i": int(x)} for x in row] for row in rows]
            hdr = e["kw"].get("header")
            if hdr:
                cm = e["kw"].get("comments", "# ")
                lines = [[{"w": w} for w in (str(cm) + str(hdr)).split()]] + lines
            cmpr.text(f"file {name}", {"lines": lines + [[]]}, r["v"])
        elif e["kind"] == "csv":
            lines = [[{"w": ",".join(str(c) for c in e["order"])}]] if e["order"] else []
            n = e["n"]
            body = r["v"].split("\n")
            if body and body[-1] == "":
                body.pop()
            if not body or body[0] != ",".join(str(c) for c in e["order"]):
                cmpr.d(f"file {name}", f"csv header: engine {e['order']} real {body[:1]}")
                continue
            if len(body) - 1 != n:
                cmpr.d(f"file {name}", f"csv rows: engine {n} real {len(body) - 1}")
                continue
            for i, ln in enumerate(body[1:]):
                cells = ln.split(",")
                for c, cell in zip(e["order"], cells):
                    x = e["cols"][c]["v"][i]
                    sub = Comparer(tol=cmpr.tol)
                    sub.text(f"file {name}:row{i}:{c}", {"lines": [[{"f": float(x)} if not isinstance(x, list) else {"w": "?"}]]}, cell)
                    cmpr.diffs.extend(sub.diffs)


# ---------------------------------------------------------------------------------------------------------------------
# relational contracts: bind the result symbols to the real output, then evaluate / check every assumed fact


def _bind_key(ze, t):
    d = t.decl()
    if d.kind() != z3.Z3_OP_UNINTERPRETED:
        return None
    try:
        args = tuple(ZEval._keyval(ze(c)) for c in t.children())
    except Unbound:
        return None
    return (d.name(), args)


def _fact_arity(fact):
    """(number of leading index arguments, takes parameter arguments)"""
    import inspect
    try:
        ps = list(inspect.signature(fact).parameters.values())
    except (TypeError, ValueError):
        return 1, False
    k = len([p for p in ps if p.kind in (p.POSITIONAL_ONLY, p.POSITIONAL_OR_KEYWORD) and p.default is p.empty])
    return k, any(p.kind == p.VAR_POSITIONAL for p in ps)


def _val_term(val, sort):
    if isinstance(val, bool):
        return z3.BoolVal(val)
    if sort == z3.IntSort():
        return z3.IntVal(int(val))
    if isinstance(val, float):
        return z3.RealVal(str(sv.to_frac(val)))
    return z3.RealVal(str(Fraction(val)))


def rel_check(sn, eo, cmpr, pl):
    """bind the result symbols of a relational contract to the real output, then check every assumed fact: ground facts are
    evaluated (floats with tolerance); facts that mention auxiliary symbols (inverse permutations, witnesses, selections under a
    symbolic index ...) are checked for SATISFIABILITY together with the equations `engine term == real value` — i.e. the real
    output must be a model of what the contract assumes about the result."""
    st = eo.state
    bind = dict(eo.env.bind)
    if sn.get("binder"):
        bind.update(sn["binder"](eo, cmpr.real, pl) or {})
    ze = ZEval(bind, tol=sn.get("fact_tol", 1e-9))
    notes = []
    equations = []       # (term, real value): terms that are not plain applications of a result symbol

    def absorb(bindings, where=""):
        pending = list(bindings)
        progress = True
        while pending and progress:
            progress = False
            rest = []
            for term, val, sort in pending:
                key = _bind_key(ze, term)
                if key is None or key[0] in INTENDED or sigma.BY_DECL.get(key[0]) is not None:
                    rest.append((term, val, sort))
                    continue
                if isinstance(val, list):
                    val = complex(*val)
                if sort == "int" and not isinstance(val, bool):
                    val = int(val)
                if key in bind and not _approx_eq(bind[key], val):
                    cmpr.d("binding", f"{key} bound to two values {bind[key]} / {val}")
                bind[key] = val
                ze.cache.clear()
                progress = True
            pending = rest
        for term, val, sort in pending:
            try:
                x = ze(term)
                v = val if not isinstance(val, list) else val[0]
                if not _approx_eq(x, v, max(cmpr.tol, 1e-9)):
                    cmpr.d(where or "derived", f"engine term {str(term)[:90]} evaluates to {x!r}, real {val!r}")
            except Unbound:
                equations.append((term, val))
    absorb(cmpr.bindings)
    pl2 = Plainer(st, bind)
    for path, obj, r in cmpr.deferred:
        try:
            e2 = pl2.arr(obj) if isinstance(obj, A.Arr) else {"t": "list", "v": [pl2.value(obj.fn(k)) for k in range(int(pl2.dim(obj.length)))]}
        except (EngineError, Unbound, TypeError) as e:
            cmpr.d(path, f"cannot read the engine result after binding: {e}")
            continue
        sub = Comparer(tol=max(cmpr.tol, 1e-9), relational=True, loose_dtype=cmpr.loose_dtype)
        if isinstance(obj, A.Arr):
            e2.pop("writeable", None)
            sub.nd(path, e2, r)
        else:
            sub.value(path, e2, r)
        cmpr.diffs.extend(sub.diffs)
        absorb(sub.bindings, path)
        pl2 = Plainer(st, bind)
        for path2, obj2, r2 in sub.deferred:
            cmpr.d(path2, "nested symbolic shape")
    if cmpr.diffs:
        return
    side_solver = []
    for so in eo.side_pending:
        try:
            if not ze(so.cond):
                cmpr.d("side obligation", f"{so.kind} is false for the real output (the contract's precondition would reject this call)")
        except Unbound:
            side_solver.append(so)
    if cmpr.diffs:
        return
    # ---- the assumed facts
    facts = [("assumed (path)", f) for f in list(st.facts) + list(st.pc)]
    for q in st.qfacts:
        try:
            facts.extend(qfact_formulas(q, bind, ze))
        except Unbound as u:
            notes.append(f"qfact {q[0]} not instantiated ({u})")
    extra = sn.get("extra_facts")
    if extra:
        facts.extend(extra(eo, bind, ze))
    seeds = [f for _, f in facts] + [t for t, _ in equations] + [t for t, _, _ in cmpr.bindings if t is not None]
    maxn = max([8] + [int(v) for (nm, a), v in bind.items() if nm.startswith("LEN")])
    maxn = min(sn.get("fact_range", maxn), 12)
    idx_range = range(-1, maxn + 1)
    for rnd in range(2):
        apps = axioms.collect_apps(seeds)
        new = []
        for fname, fact in st.array_facts:
            k, has_params = _fact_arity(fact)
            group = getattr(fact, "_group", None) or (fname,)
            ptuples = {}
            for g in group:
                for e in apps.get(g, {}).values():
                    ch = e.children()
                    kk = k if g == fname else min(k, len(ch))
                    ps = tuple(ch[kk:]) if has_params else ()
                    ptuples[tuple(x.get_id() for x in ps)] = ps
            if not has_params:
                ptuples = {(): ()} if apps.get(fname) or rnd == 0 else {}
            for ps in ptuples.values():
                for tup in itertools.product(idx_range, repeat=k):
                    if k > 1 and len(idx_range) ** k > 400 and any(t > 5 for t in tup):
                        continue
                    try:
                        new.append((f"array fact {fname}{tup}", fact(*[z3.IntVal(x) for x in tup], *ps)))
                    except Exception as e:
                        notes.append(f"array fact {fname} not instantiable: {type(e).__name__}: {str(e)[:60]}")
                        break
        for name, fn in axioms.QFACTS.items():
            for e in apps.get(name, {}).values():
                try:
                    new.extend((f"QFACTS {name}", f) for f in fn(e))
                except Exception:
                    pass
        known = {f.get_id() for _, f in facts}
        new = [(l, f) for l, f in new if f.get_id() not in known]
        if not new:
            break
        facts.extend(new)
        seeds = [f for _, f in new]
    need_solver, nchecked = [], 0
    for label, f in facts:
        try:
            ok = ze(f)
        except Unbound:
            need_solver.append((label, f))
            continue
        nchecked += 1
        if not ok:
            # name the false conjuncts of the consequent
            culprit = f
            for _ in range(4):
                kids = culprit.children() if z3.is_app(culprit) else []
                if z3.is_implies(culprit):
                    culprit = kids[1]
                    continue
                bad_k = [c for c in kids if z3.is_bool(c) and ze(c) is False] if z3.is_and(culprit) else []
                if len(bad_k) >= 1:
                    culprit = bad_k[0]
                    continue
                break
            cmpr.d("fact", f"{label} is FALSE on the real output: " + " ".join(str(culprit).split())[:500])
    if (need_solver or equations or side_solver) and not cmpr.diffs:
        s = z3.Solver()
        s.set("timeout", int(sn.get("solver_ms", 4000)))
        forms = [f for _, f in need_solver]
        for term, val in equations:
            if isinstance(val, list):
                notes.append("complex-valued derived term skipped")
                continue
            forms.append(term == _val_term(val, term.sort()))
        # Sigma applications inside these formulas: unfold them (concrete ranges after the LEN facts) through their axioms
        forms = forms + axioms.saturate(forms, rounds=2, opts={"array_facts": []})
        for f in forms:
            s.add(f)
        inexact = False
        decls = {}
        for f in forms:
            for nm, ap in axioms.collect_apps([f]).items():
                for a in ap.values():
                    decls[nm] = a.decl()
            for c in sigma.free_consts(f):
                decls[c.decl().name()] = c.decl()
        for (nm, args), val in bind.items():
            d = decls.get(nm)
            if d is None or d.arity() != len(args):
                continue
            if isinstance(val, complex) or (isinstance(val, float) and d.range() == z3.RealSort() and abs(val - float(sv.to_frac(val))) > 0):
                inexact = True
                continue
            app = d(*[_val_term(a, d.domain(i)) for i, a in enumerate(args)]) if args else d()
            s.add(app == _val_term(val, app.sort()))
        r = s.check()
        if r == z3.sat:
            for so in side_solver:
                s.push()
                s.add(z3.Not(so.cond))
                if s.check() == z3.sat:
                    notes.append(f"side obligation {so.kind} is not implied by the assumed facts for this output (narrower contract)")
                s.pop()
        hint = "; ".join(lbl for lbl, _ in need_solver[:3]) + (f"; {len(equations)} equations term = real value" if equations else "")
        if r == z3.unsat:
            if inexact:
                notes.append(f"facts with auxiliary symbols unsatisfiable with the exact part of the binding only (float bindings dropped): not used as a verdict ({hint})")
            else:
                cmpr.d("fact", f"the real output is NOT a model of the assumed facts: unsatisfiable together with the result equations ({hint} ...)")
        elif r == z3.sat:
            nchecked += len(need_solver) + len(equations)
        else:
            notes.append(f"SOLVER-UNKNOWN: {len(need_solver)} facts with auxiliary symbols / {len(equations)} equations: solver answered {r} ({s.reason_unknown()})")
    cmpr.notes = [f"{nchecked} assumed facts / result equations hold on the real output"] + notes


def qfact_formulas(q, bind, ze):
    """pairwise facts that contracts instantiate from state.qfacts (layouts documented in pyvc/relops.py, pyvc/arr.py)"""
    out = []
    kind = q[0]

    def zb(x):
        return sv.zb(x) if isinstance(x, SV) else z3.BoolVal(bool(x))
    if kind == "argsort":
        _, m, key, P, PINV = q
        m = int(ze(sv.znum(m))) if not is_conc(m) else int(m)
        for t in range(m):
            for u in range(t, m):
                out.append((f"qfact argsort key(P({t})) <= key(P({u}))", zb(sv.cmp("<=", key(P(t)), key(P(u))))))
    elif kind == "argpartition":
        _, m, key, P, PINV, kth = q
        m = int(ze(sv.znum(m))) if not is_conc(m) else int(m)
        kth = int(ze(sv.znum(kth))) if not is_conc(norm(kth)) else int(norm(kth))
        for t in range(0, kth + 1):
            out.append((f"qfact argpartition key(P({t})) <= key(P(kth))", zb(sv.cmp("<=", key(P(t)), key(P(kth))))))
        for u in range(kth, m):
            out.append((f"qfact argpartition key(P(kth)) <= key(P({u}))", zb(sv.cmp("<=", key(P(kth)), key(P(u))))))
    elif kind == "select-increasing":
        _, cnt, sel, rank = q
        c = int(ze(sv.znum(cnt))) if not is_conc(cnt) else int(cnt)
        for t in range(c):
            for u in range(t + 1, c):
                out.append((f"qfact select-increasing SEL({t}) < SEL({u})", zb(sv.cmp("<", sel(t), sel(u)))))
    elif kind in ("max", "min"):
        n, rd, M = q[1], q[2], q[3]
        n = int(ze(sv.znum(n))) if not is_conc(n) else int(n)
        for t in range(n):
            out.append((f"qfact {kind} bound at {t}", zb(sv.cmp("<=" if kind == "max" else ">=", rd((t,)), M))))
    return out


# ---------------------------------------------------------------------------------------------------------------------
# tables: which properties give a snippet's functions a different contract


def _sig(fn, depth=0):
    if fn is None:
        return None
    if isinstance(fn, I.LibFunc):
        return ("LibFunc", fn.name, _sig(fn.fn, depth))
    f = getattr(fn, "__func__", fn)
    code = getattr(f, "__code__", None)
    if code is None:
        return (type(fn).__name__, getattr(fn, "name", None))
    cells = ()
    if depth < 3 and getattr(f, "__closure__", None):
        cells = tuple(_sig(c.cell_contents, depth + 1) for c in f.__closure__
                      if callable(getattr(c, "cell_contents", None)) or isinstance(getattr(c, "cell_contents", None), I.LibFunc))
    return (code.co_filename.replace(ROOT, ""), code.co_firstlineno, f.__qualname__, cells)


def impl_of(lib, name):
    """the implementation a table gives to a library name as listed in the evidence (np.x, math.x, pd.X, builtins, arr.m ...)"""
    head, _, tail = name.partition(".")
    if head == "np":
        return lib.np.get(tail)
    if head in ("math", "cmath", "re", "time"):
        return (lib.mods.get(head) or {}).get(tail)
    if head == "pd":
        return (lib.mods.get("pandas") or {}).get(tail)
    if not tail:
        return (lib.hooks.get("pyvc.lib.BUILTINS") or {}).get(name)
    return None


HOOK_KEYS = ["pyvc.arr.SYMBOLIC_MINMAX", "pyvc.arr.MASKED_ROW", "pyvc.text.open_file", "pyvc.text.file_method"]


def table_signature(prop, funcs, hooks=True):
    lib = vc.lib_for(prop)
    sig = [(f, _sig(impl_of(lib, f))) for f in funcs]
    if not hooks:
        return repr(sig)
    for k in HOOK_KEYS:
        sig.append((k, _sig(lib.hooks.get(k))))
    for k in ("value_binop", "value_eq", "str_binop", "value_attr", "value_getitem", "value_setitem", "call_method"):
        sig.append((k, _sig(vars(lib).get(k))))
    if any(not ("." in f) for f in funcs):
        pass
    return repr(sig)


def tables_for(funcs, props=None, hooks=True):
    """one representative property per distinct contract tuple"""
    if props is not None:
        return list(props)          # tables named by the snippet: all of them
    seen, out = {}, []
    for p in PROPS:
        s = table_signature(p, funcs, hooks)
        if s not in seen:
            seen[s] = p
            out.append(p)
    return out


# ---------------------------------------------------------------------------------------------------------------------
# driver


CORPUS = {}
SYM_ALL = [True]      # also run every snippet with symbolic-length array arguments (--no-sym switches it off)


def run_snippet(job):
    sid, real_cases = job
    sn = CORPUS[sid]
    t0 = time.time()
    src = HEADER + sn.get("header", "") + sn["src"]
    res = {"id": sn["id"], "funcs": sn["funcs"], "cat": sn["cat"], "runs": [], "kind": sn.get("kind", "value")}
    try:
        module = make_module("libcheck_" + "".join(ch if ch.isalnum() else "_" for ch in sn["id"]), src)
    except SyntaxError as e:
        res["runs"].append({"table": None, "case": 0, "status": "DISAGREE", "detail": [f"snippet syntax: {e}"]})
        return res
    props = tables_for(sn["funcs"], sn.get("props"), hooks=sn.get("kind") != "rel")
    extern = None
    if sn.get("extern"):
        extern = sn["extern"]()
    modes = sn.get("modes") or (["conc", "sym"] if SYM_ALL[0] else ["conc"])
    for p, mode in itertools.product(props, modes):
        for ci, (case, real) in enumerate(zip(sn["cases"], real_cases)):
            try:
                eo = run_engine(module, "f", case, p, extern, symlen=(mode == "sym"), engine_call=sn.get("engine_call"))
                status, detail = compare_case(sn, eo, real, case)
                used = eo.lib_used
            except Exception as e:      # a fault of the harness or of the engine (not an EngineError): reported, never silent
                status, detail, used = "DISAGREE", [f"engine fault {type(e).__name__}: {e}", traceback.format_exc()[-600:]], []
            tname = (p or "base") + ("/symlen" if mode == "sym" else "")
            lim = sn.get("limitation") or (sn.get("limitation_tables") or {}).get(tname)
            if status == "DISAGREE" and lim:
                status = "limitation"
                detail = [lim] + detail
            if mode == "sym" and status == "not-modelled" and "modes" not in sn:
                continue        # the symbolic-length re-run of a value snippet: engine limits there are not reported twice
            res["runs"].append({"table": (p or "base") + ("/symlen" if mode == "sym" else ""), "case": ci, "status": status, "detail": detail, "lib_used": used})
    res["ms"] = round((time.time() - t0) * 1000)
    return res


def run_real(snips):
    req = {"header": HEADER, "snippets": [{"id": s["id"], "src": s.get("header", "") + s["src"], "fname": "f", "cases": s["cases"]} for s in snips]}
    p = subprocess.run([REAL_PY, os.path.join(ROOT, "tools", "libcheck_real.py")], input=json.dumps(req), capture_output=True, text=True,
                       cwd="/tmp", env=dict(os.environ, PYTHONPATH="", PYTHONWARNINGS="default"))
    if p.returncode != 0:
        sys.stderr.write(p.stderr[-3000:])
        raise SystemExit(3)
    return json.loads(p.stdout)


def check_axioms(seed, n=300):
    """the axiom instances pyvc/axioms.py generates for the uninterpreted arithmetic symbols (sqrt, exp, log, cos, sin, arccos, atan2,
    POW, rintz, round6, round8, pi) evaluated with the real functions (CPython math; exact rationals for rounding) at random and edge
    arguments.  -> list of result dicts in the format of run_snippet"""
    import random
    rng = random.Random(seed)
    R = lambda x: z3.RealVal(str(Fraction(x).limit_denominator(10 ** 9)))
    edge = [0, 1, -1, Fraction(1, 2), Fraction(-1, 2), Fraction(3, 2), Fraction(5, 2), Fraction(-5, 2), 2, 10, Fraction(1, 3), Fraction(10 ** 6 + 1, 2), Fraction(1, 2 * 10 ** 6), Fraction(3, 2 * 10 ** 6), Fraction(5, 2 * 10 ** 8)]

    def pts(k, lo, hi, extra=()):
        xs = [e for e in list(edge) + list(extra) if lo <= e <= hi]
        while len(xs) < k:
            xs.append(Fraction(round(rng.uniform(float(lo), float(hi)), rng.choice([1, 3, 7]))).limit_denominator(10 ** 7))
        return xs
    specs = [
        ("sqrt", lambda: [[sv.F_SQRT(R(x))] for x in pts(n, 0, 50)] + [[sv.F_SQRT(R(x)), sv.F_SQRT(R(y))] for x, y in zip(pts(40, 0, 9), pts(40, 0, 9)[::-1])] + [[sv.F_SQRT(R(-1))]]),
        ("rintz", lambda: [[sv.F_RINT(R(x))] for x in pts(n, -50, 50) + [Fraction(2 * k + 1, 2) for k in range(-6, 7)]]),
        ("round6", lambda: [[sv.F_ROUND6(R(x)), sv.F_ROUND6(R(y))] for x, y in zip(pts(n, -5, 5), pts(n, -5, 5)[::-1])]),
        ("round8", lambda: [[sv.F_ROUND8(R(x)), sv.F_ROUND8(R(y))] for x, y in zip(pts(n, -5, 5), pts(n, -5, 5)[::-1])]),
        ("exp", lambda: [[sv.F_EXP(R(x)), sv.F_LOG(sv.F_EXP(R(x)))] for x in pts(n, -20, 20)]),
        ("log", lambda: [[sv.F_LOG(R(x))] for x in pts(n, Fraction(1, 100), 50)]),
        ("cos", lambda: [[sv.F_COS(R(x)), sv.F_SIN(R(x))] for x in pts(n, -10, 10)]),
        ("arccos", lambda: [[sv.F_ARCCOS(R(x))] for x in pts(n, -1, 1)] + [[sv.F_ARCCOS(R(2))]]),
        ("atan2", lambda: [[sv.F_ATAN2(R(y), R(x))] for x, y in zip(pts(n, -5, 5), pts(n, -5, 5)[::-1])] + [[sv.F_ATAN2(R(0), R(-1))], [sv.F_ATAN2(R(0), R(0))], [sv.F_ATAN2(R(-1), R(0))]]),
        ("POW", lambda: [[sv.F_POW(R(a), R(k))] for a, k in zip(pts(n, 0, 6), pts(n, -3, 3)[::-1])] + [[sv.F_POW(R(a), z3.Real("k!ax") + k0)] for a in pts(20, Fraction(1, 10), 4) for k0 in (1, 2, -1, -3)]),
    ]
    out = []
    for name, mk in specs:
        runs = []
        bad = 0
        groups = mk()
        for gi, terms in enumerate(groups):
            bind = {("k!ax", ()): Fraction(rng.randint(-20, 20), 8)}
            ze = ZEval(bind, tol=1e-9)
            try:
                insts = axioms.instances([t == t for t in terms])
            except Exception as e:
                runs.append({"table": "axioms", "case": gi, "status": "DISAGREE", "detail": [f"axioms.instances failed: {type(e).__name__}: {e}"], "lib_used": []})
                continue
            fails = []
            for f in insts:
                try:
                    if not ze(f):
                        fails.append(str(z3.simplify(f))[:200])
                except Unbound as u:
                    if "division-by-zero" not in str(u):
                        fails.append(f"not evaluable ({u}): {str(f)[:120]}")
                except (ValueError, OverflowError):
                    pass        # outside the real function's domain: the instance is vacuous or about NaN (A1)
            if fails:
                bad += 1
                runs.append({"table": "axioms", "case": gi, "status": "DISAGREE", "detail": [f"axiom instance FALSE for {terms[0]}: " + fails[0]], "lib_used": []})
            else:
                runs.append({"table": "axioms", "case": gi, "status": "agree", "detail": [], "lib_used": []})
        out.append({"id": f"axioms:{name}", "funcs": [f"axiom:{name}"], "cat": "axiom", "runs": runs, "kind": "axiom", "ms": 0})
    return out


def evidence_lib_names():
    import glob
    names = {}
    for f in sorted(glob.glob(os.path.join(ROOT, "evidence", "*.json"))):
        try:
            d = json.load(open(f))
        except Exception:
            continue
        pid = os.path.basename(f)[:-5]
        for t in d.get("coverage", {}).get("trusted_base", []):
            if t.startswith("assumed library contracts (pyvc/lib*.py): "):
                for x in t.split(": ", 1)[1].split(", "):
                    names.setdefault(x, set()).add(pid)
    return names


def main():
    ap = argparse.ArgumentParser()
    ap.add_argument("--filter", default=None)
    ap.add_argument("--jobs", type=int, default=int(os.environ.get("LIBCHECK_JOBS", "8")))
    ap.add_argument("--verbose", "-v", action="store_true")
    ap.add_argument("--list", action="store_true")
    ap.add_argument("--no-report", action="store_true")
    ap.add_argument("--seed", type=int, default=20260930)
    ap.add_argument("--markdown", action="store_true", help="print the coverage / limitation / not-modelled tables for design_notes/LIBCHECK.md")
    ap.add_argument("--no-sym", action="store_true", help="skip the symbolic-length re-run of the value snippets")
    args = ap.parse_args()
    t0 = time.time()
    SYM_ALL[0] = not args.no_sym
    import libcheck_corpus
    snips = libcheck_corpus.build(args.seed)
    ids = [s["id"] for s in snips]
    dup = {x for x in ids if ids.count(x) > 1}
    if dup:
        print(f"duplicate snippet ids: {sorted(dup)}")
        return 3
    if args.filter:
        snips = [s for s in snips if args.filter in s["id"] or any(args.filter in f for f in s["funcs"])]
    if args.list:
        for s in snips:
            print(s["id"], s["funcs"], len(s["cases"]))
        return 0
    real = run_real(snips)
    t_real = time.time() - t0
    CORPUS.update({s["id"]: s for s in snips})
    jobs = [(s["id"], real["results"][s["id"]]) for s in snips]
    if args.jobs > 1 and len(jobs) > 4:
        import multiprocessing as mp
        with mp.get_context("fork").Pool(args.jobs) as pool:
            results = pool.map(run_snippet, jobs, chunksize=4)
    else:
        results = [run_snippet(j) for j in jobs]
    if not args.filter or "axiom" in args.filter:
        results = list(results) + check_axioms(args.seed)
    # ---- report
    counts = {"agree": 0, "DISAGREE": 0, "not-modelled": 0, "limitation": 0}
    solver_unknown = []
    by_func = {}
    bad, lim, nm = [], [], []
    lib_used_seen = set()
    for r in results:
        sts = {x["status"] for x in r["runs"]}
        for x in r["runs"]:
            counts[x["status"]] += 1
            if x["status"] == "agree" and any("SOLVER-UNKNOWN" in str(d) for d in x["detail"]):
                solver_unknown.append(r["id"])
            lib_used_seen.update(x.get("lib_used") or [])
            if x["status"] == "DISAGREE":
                bad.append((r["id"], x))
            elif x["status"] == "limitation":
                lim.append((r["id"], x))
            elif x["status"] == "not-modelled":
                nm.append((r["id"], x))
        for f in r["funcs"]:
            e = by_func.setdefault(f, {"snippets": 0, "agree": 0, "DISAGREE": 0, "not-modelled": 0, "limitation": 0})
            e["snippets"] += 1
            for x in r["runs"]:
                e[x["status"]] += 1
    ev = evidence_lib_names()
    covered = set(by_func) | lib_used_seen
    uncovered = sorted(n for n in ev if n not in covered and libcheck_corpus.is_lib_name(n))
    never_agree = sorted(f for f, e in by_func.items() if e["agree"] == 0)
    wall = round(time.time() - t0, 1)
    summary = {"snippets": len(results), "runs": sum(counts.values()), **counts, "functions": len(by_func), "wall_s": wall, "real_side_s": round(t_real, 1)}
    print(f"[libcheck] {summary['snippets']} snippets over {summary['functions']} library names, {summary['runs']} (snippet, table, case) runs: "
          f"{counts['agree']} agree, {counts['DISAGREE']} DISAGREE, {counts['limitation']} declared limitations, {counts['not-modelled']} not modelled; {wall} s")
    seen_l = set()
    for sid, x in lim:
        if (sid, x["detail"][0]) in seen_l:
            continue
        seen_l.add((sid, x["detail"][0]))
        if args.verbose:
            print(f"  limitation {sid} [{x['table']}#{x['case']}]: {x['detail'][0]} :: {'; '.join(x['detail'][1:2])[:200]}")
    if args.verbose:
        seen_n = set()
        for sid, x in nm:
            if sid in seen_n:
                continue
            seen_n.add(sid)
            print(f"  not modelled {sid} [{x['table']}#{x['case']}]: {x['detail'][0][:160]}")
    grouped = {}
    for sid, x in bad:
        grouped.setdefault((sid, x["case"], " | ".join(str(d) for d in x["detail"][:3])[:700]), []).append(x["table"])
    for (sid, case, det), tabs in grouped.items():
        print(f"DISAGREE {sid} [case {case}; tables {','.join(tabs)}]: {det}")
    if solver_unknown:
        print(f"[libcheck] structural agreement only (the solver did not decide the assumed facts with auxiliary symbols within its budget): "
              f"{len(solver_unknown)} runs of {', '.join(sorted(set(solver_unknown)))}")
    if args.verbose:
        slow = sorted(results, key=lambda r: -r.get("ms", 0))[:8]
        print("[libcheck] slowest snippets: " + ", ".join(f"{r['id']} {r.get('ms', 0)} ms" for r in slow))
    if uncovered:
        print(f"[libcheck] library names of evidence/*.json without a snippet: {', '.join(uncovered)}")
    if never_agree and args.verbose:
        print(f"[libcheck] names whose snippets never reached an agreeing run: {', '.join(never_agree)}")
    if args.markdown:
        cats = {}
        for r in results:
            c = cats.setdefault(r["cat"], {"snippets": 0, "runs": 0, "agree": 0, "limitation": 0, "not-modelled": 0, "DISAGREE": 0})
            c["snippets"] += 1
            for x in r["runs"]:
                c["runs"] += 1
                c[x["status"]] += 1
        print("\n| section | snippets | runs | agree | declared limitation | not modelled | DISAGREE |\n|---|---|---|---|---|---|---|")
        for k in sorted(cats):
            c = cats[k]
            print(f"| {k} | {c['snippets']} | {c['runs']} | {c['agree']} | {c['limitation']} | {c['not-modelled']} | {c['DISAGREE']} |")
        print("\nlibrary names exercised: " + ", ".join(f"`{k}`" for k in sorted(by_func) if not k.startswith("axiom:")))
        print("\n| snippet | declared limitation |\n|---|---|")
        for sid, why in sorted({(sid, x["detail"][0]) for sid, x in lim}):
            print(f"| `{sid}` | {why} |")
        print("\n| snippet (first table / case) | the engine refuses: |\n|---|---|")
        seen_n = set()
        for sid, x in nm:
            if sid in seen_n:
                continue
            seen_n.add(sid)
            print(f"| `{sid}` [{x['table']}#{x['case']}] | {x['detail'][0][:170]} |")
    if not args.no_report and not args.filter:
        rep = {"tool": "tools/libcheck.py", "what": "differential validation of the assumed library contracts (validation on finitely many inputs, not proof)",
               "versions": real["versions"], "z3": z3.get_version_string(), "seed": args.seed, "summary": summary,
               "functions": {k: by_func[k] for k in sorted(by_func)},
               "evidence_names_without_snippet": uncovered,
               "evidence_names_not_library_functions": sorted(n for n in ev if not libcheck_corpus.is_lib_name(n)),
               "disagreements": [{"snippet": sid, **{k: x[k] for k in ("table", "case", "detail")}} for sid, x in bad],
               "limitations": sorted({(sid, x["detail"][0]) for sid, x in lim}),
               "not_modelled": sorted({(sid, x["detail"][0][:200]) for sid, x in nm}),
               "snippets": [{"id": r["id"], "funcs": r["funcs"], "cat": r["cat"], "kind": r["kind"],
                             "tables": sorted({x["table"] for x in r["runs"]}), "cases": len({x["case"] for x in r["runs"]}),
                             "status": ("DISAGREE" if any(x["status"] == "DISAGREE" for x in r["runs"]) else
                                        "limitation" if any(x["status"] == "limitation" for x in r["runs"]) else
                                        "agree" if any(x["status"] == "agree" for x in r["runs"]) else "not-modelled")} for r in results]}
        rep["summary"].pop("wall_s", None)
        rep["summary"].pop("real_side_s", None)
        path = os.path.join(ROOT, "baseline", "libcheck.json")
        with open(path, "w") as f:
            json.dump(rep, f, indent=1, sort_keys=True, default=str)
            f.write("\n")
        print(f"[libcheck] report written to {os.path.relpath(path, ROOT)}")
    return 1 if bad else 0


if __name__ == "__main__":
    sys.exit(main())
