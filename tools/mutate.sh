#!/bin/bash
# usage: tools/mutate.sh <prop> <file-relative-to-repo> <sed-expr> [extra ./check args]
# applies a sed mutation to a SCRATCH copy of the repo's package (never to /repo), runs ./check against it, removes the copy.
prop=$1; f=$2; expr=$3; shift 3
src=${PYVC_REPO:-/repo}
tmp=$(mktemp -d /tmp/pyvc-mut.XXXXXX)
cp -r $src/PyMatterSim $tmp/PyMatterSim
sed -i "$expr" $tmp/$f
if cmp -s $tmp/$f $src/$f; then echo "MUTATION DID NOT CHANGE THE FILE"; fi
diff <(cat $src/$f) <(cat $tmp/$f) | head -6
(cd "$(dirname "$0")/.." && PYVC_REPO=$tmp PYVC_NO_EVIDENCE=1 PYVC_REPLAY_DIR=$tmp/replays ./check $prop --tier quick "$@" 2>&1 | grep -E "^\[pyvc\]|VIOLATION|UNDECIDED|CHECKER|KNOWN|FAILED" | head -12; echo "exit=${PIPESTATUS[0]}")
rm -rf $tmp
