#!/usr/bin/env python3
"""print the prompt given to an independent sub-agent that produces HARMLESS (behaviour-preserving) refactorings for one property"""
import json, sys
pid, wt = sys.argv[1], sys.argv[2]
p = [json.loads(l) for l in open('/verif/properties.jsonl') if json.loads(l)['id'] == pid][0]
print(f"""You are working on a scratch git worktree of the Python library yuanchaohu/pymattersim (analysis of molecular-simulation trajectories) at {wt} . Work ONLY inside {wt}. Never read or write /repo or /verif (they are off limits). Use the interpreter /venv/bin/python with PYTHONPATH={wt} so that the worktree's copy of the package `PyMatterSim` is the one imported. There is no network.

A semantic property that the library satisfies:

  id: {p['id']}
  title: {p['title']}
  statement: {p['statement']}
  code it is anchored in: {json.dumps(p['anchors'].get('mechanism'))}

Your task: act as a maintainer doing ordinary, BEHAVIOUR-PRESERVING maintenance on the code this property is anchored in. Produce FOUR independent small refactorings (files under {wt}/PyMatterSim/ only; each applies on its own to the clean checkout) of the kind that shows up in real pull requests, each of a DIFFERENT kind, for example: renaming local variables; reordering independent statements; extracting a few lines into a private helper function in the same module (or inlining one); replacing an explicit Python loop by the equivalent numpy expression or vice versa; replacing a numpy call by an equivalent one (np.square(x) -> x * x, np.dot -> @, np.linalg.norm(..., axis=1) -> np.sqrt((x**2).sum(axis=1)), a.sum(axis=1) -> np.sum(a, axis=1), np.zeros + fill -> list comprehension + np.array); hoisting a genuinely loop-invariant expression out of a loop; replacing string formatting style (% -> f-string) that yields the same text; using keyword instead of positional arguments at a call site; replacing `if a: ... else: ...` by an equivalent guard with early `continue`; adding an assert or a logger call. Each refactoring MUST leave every observable output of the affected functions identical for ALL valid inputs (bit-for-bit for integers/strings/files; for floats identical up to the last few ulps at most) - the property must still hold exactly as before. Do not change public signatures, defaults, file formats or dtypes.
For each refactoring write demo.py (plain Python, run as `PYTHONPATH={wt} /venv/bin/python demo.py`, self-contained, temporary files under tempfile.mkdtemp()) that exercises the refactored function(s) on a few dozen seeded random valid inputs (including the unusual ones: triclinic cells, several frames, several species, box origins, masks ...) and compares against an independent straightforward computation of what the property statement prescribes; it must exit 0 both on the clean checkout and with the refactoring applied. Also run the test files that import the changed modules (one pytest process at a time; do NOT run the whole suite): they must pass exactly as on the clean checkout.

Deliverables: {wt}/_out/r1/ ... {wt}/_out/r4/ each containing
  patch.diff   (output of `git -C {wt} diff -- PyMatterSim` for that refactoring alone, applicable with `git apply` on the clean checkout)
  demo.py
  meta.json    {{"property": "{p['id']}", "kind": "harmless-refactoring", "summary": "...what was changed and why it preserves behaviour...", "files_changed": [...], "tests_run": "...", "demo_clean_exit": 0, "demo_refactored_exit": 0}}
After producing each one, restore the checkout (`git -C {wt} checkout -- PyMatterSim`) before starting the next; verify at the end that each patch applies to the clean checkout and that its demo exits 0 with and without it. Leave the worktree clean (apart from _out/). Your final answer: two lines per refactoring (what, where, kind).""")
