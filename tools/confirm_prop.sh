#!/bin/bash
# confirm all seeded changes of one property sequentially (they share one scratch worktree)
for k in 1 2 3; do [ -d /tmp/mut/$1/_out/$k ] && /verif/tools/confirm_seed.sh $1 $k; done
