"""debug: print the alias-pass result for the package   usage: python3 tools/purity_dump.py [repo] [substr]"""
import os, sys
sys.path.insert(0, os.path.dirname(os.path.dirname(os.path.abspath(__file__))))
from pyvc import purity as P
repo = sys.argv[1] if len(sys.argv) > 1 else os.environ.get("PYVC_REPO", "/repo")
sub = sys.argv[2] if len(sys.argv) > 2 else ""
pkg = P.analyse_package(repo)
print(len(pkg.funcs), "functions, rounds", pkg.rounds, "parse errors", pkg.parse_errors)
for name, fi in sorted(pkg.funcs.items()):
    if sub not in name:
        continue
    fr = P.frame_report(fi)
    hb, ho = P.hidden_state_report(pkg, fi)
    db, do = P.determinism_report(fi)
    fl = P.file_report(fi)
    if fr or hb or db or fl or fi.state["unknown_syntax"] or sub:
        print("==", name, "mutates", sorted(fi.mutates), "ret", fi.ret)
    for s in fr:
        print("   STORE", s.lineno, s.how, "|", s.text, "|", s.input_roots(), s.via or "")
    for b in hb: print("   HIDDEN", b)
    for b in ho: print("   hidden-obs", b)
    for b in db: print("   NONDET", b)
    for b in do: print("   nondet-obs", b)
    for f in fl: print("   FILE", f)
    for u in fi.state["unknown_syntax"]: print("   UNKNOWN-SYNTAX", u)
    if sub:
        for s in fi.stores:
            if not s.input_roots(): print("   local-store", s.lineno, s.how, s.text, sorted(s.roots))
for m in pkg.mods.values():
    for c in m.classes.values():
        if sub in c.qual:
            print("class", c.qual, {a: (sorted(v.roots), v.kind) for a, v in c.attr.items() if v.roots}, {a: sorted(w) for a, w in c.attr_writers.items() if w - {"__init__"}})
