#!/usr/bin/env python3
"""Regenerates MANIFEST.json from tools/manifest_src.py (kept valid against the schema)."""
import json
import os
import sys

HERE = os.path.dirname(os.path.abspath(__file__))
sys.path.insert(0, HERE)
import manifest_src as S  # noqa: E402

TECH = ("contract-based deductive verification: verification conditions generated from /repo's real ASTs by the pyvc "
        "symbolic executor against sidecar contracts, discharged by z3 5.1 (nlsat after ackermannisation) / cvc5 / z3 4.8; "
        "counter-models replayed on the real package")

import ast  # noqa: E402

CHECKS = {}
for pid in S.ALL:
    path = os.path.join(HERE, "..", "contracts", f"{pid}.py")
    if not os.path.exists(path):
        continue
    tree = ast.parse(open(path).read())
    for node in tree.body:
        if isinstance(node, ast.Assign) and len(node.targets) == 1 and getattr(node.targets[0], "id", None) == "MANIFEST":
            CHECKS[pid] = ast.literal_eval(node.value)
NOT_APPLICABLE = {p: S.NOT_APPLICABLE_REASONS.get(p, S._PENDING) for p in S.ALL if p not in CHECKS}

checks = []
for pid, c in sorted(CHECKS.items()):
    checks.append({
        "property_id": pid,
        "quick_cmd": f"./check {pid} --tier quick",
        "thorough_cmd": f"./check {pid} --tier thorough",
        "evidence_file": f"evidence/{pid}.json",
        "replay_cmd_template": f"./check {pid} --replay {{path}}",
        "engine": "pyvc",
        "level_claimed": {"category": c.get("category", "proof"), "text": c["text"], "design_ref": f"DESIGN.md Part II {pid}"},
        "level_note": c["note"],
        "technique": c.get("technique", TECH),
    })
m = {
    "version": 1,
    "setup_cmd": "python3-vt -m compileall -q pyvc contracts >/dev/null 2>&1; true",
    "hooks": {
        "guard": "PYMATTERSIM_VERIF",
        "enable": "no hooks: the verifier reads /repo's source text (ast) on every run and the replay harness imports the unmodified package",
        "baseline_off_cmd": "cd /repo && /venv/bin/python -m pytest -ra -q -p no:cacheprovider --timeout=900 --continue-on-collection-errors",
        "source_commits": [],
        "add_only": True,
    },
    "engines": [{
        "name": "pyvc", "path": "pyvc/", "serves_properties": sorted(CHECKS),
        "kind_free_text": "contract-based deductive verifier for a Python/numpy subset: sidecar contracts (contracts/*.py) on the real "
                          "functions; VCs generated from /repo's ASTs on every run (pyvc/interp.py, loops.py, arr.py, sigma.py) and discharged "
                          "by z3 5.1 / cvc5 / z3 4.8; counter-models replayed on the real package under /venv/bin/python (replay.py)"}],
    "checks": checks,
    "notes": S.NOTES,
    "not_applicable": [{"property_id": k, "reason": v} for k, v in sorted(NOT_APPLICABLE.items())],
}
with open(os.path.join(HERE, "..", "MANIFEST.json"), "w") as f:
    json.dump(m, f, indent=1)
try:
    import jsonschema
    jsonschema.validate(m, json.load(open("/root/.vp/MANIFEST.schema.json")))
    print("MANIFEST.json valid;", len(checks), "checks,", len(m["not_applicable"]), "not applicable")
except ImportError:
    print("written (jsonschema not available)")
