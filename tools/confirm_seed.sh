#!/bin/bash
# usage: tools/confirm_seed.sh <prop> <k>     (worktree /tmp/mut/<prop>, agent output in _out/<k>)
# confirms in the scratch worktree: patch applies; demo passes clean, fails mutated; the 75 baseline tests still pass with the change.
# on success copies to /verif/seeded/<prop>-<k>/ with meta.json extended by what was run.
prop=$1; k=$2
wt=/tmp/mut/$prop; out=$wt/_out/$k
dst=/verif/seeded/$prop-$k
log=$(mktemp /tmp/confirm.XXXXXX)
cd $wt || exit 2
git reset -q --hard HEAD
PYTHONPATH=$wt /venv/bin/python $out/demo.py >$log.clean 2>&1; c0=$?
git apply --3way $out/patch.diff 2>/dev/null || git apply $out/patch.diff || { echo "$prop-$k: patch does not apply"; exit 3; }
PYTHONPATH=$wt /venv/bin/python $out/demo.py >$log.mut 2>&1; c1=$?
junit=$log.xml
PYTHONPATH=$wt nice -n 5 /venv/bin/python -m pytest -q -p no:cacheprovider --timeout=900 --continue-on-collection-errors --junitxml=$junit >$log.pytest 2>&1
git reset -q --hard HEAD
rm -f dump.*.dat dumpused 2>/dev/null
python3 - "$junit" "$out" "$dst" "$c0" "$c1" "$prop" "$k" <<'PY'
import json, sys, xml.etree.ElementTree as ET, os, shutil
junit, out, dst, c0, c1, prop, k = sys.argv[1:8]
base = set(json.load(open('/root/.vp/BASELINE.json'))['stable_pass'])
passed = set()
for tc in ET.parse(junit).getroot().iter('testcase'):
    if not any(ch.tag in ('failure', 'error', 'skipped') for ch in tc):
        passed.add(f"{tc.get('classname')}::{tc.get('name')}")
missing = sorted(base - passed)
ok = int(c0) == 0 and int(c1) != 0 and not missing
print(f"{prop}-{k}: demo clean exit={c0} mutated exit={c1}; baseline tests passing with change: {len(base)-len(missing)}/{len(base)}; {'CONFIRMED' if ok else 'REJECTED ' + str(missing[:3])}")
if ok:
    os.makedirs(dst, exist_ok=True)
    shutil.copy(os.path.join(out, 'patch.diff'), dst)
    shutil.copy(os.path.join(out, 'demo.py'), dst)
    meta = json.load(open(os.path.join(out, 'meta.json')))
    meta['confirmed'] = {"demo_clean_exit": int(c0), "demo_mutated_exit": int(c1), "baseline_tests_passing_with_change": f"{len(base)}/{len(base)}",
                         "ran": "tools/confirm_seed.sh in a scratch git worktree of /repo: demo.py clean and mutated, then the full pytest command of BASELINE.json with the change applied (junit compared with the 75 stable-pass tests)"}
    json.dump(meta, open(os.path.join(dst, 'meta.json'), 'w'), indent=1)
PY
rm -f $log*
