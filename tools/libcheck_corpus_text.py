"""libcheck corpus: strings, formatting, files (pyvc/text.py token model; libext C09 RepStr / savetxt, C19 read_csv)."""
from libcheck_corpus import B, D, E, F, FILE, Iv, OUT, P, T

DUMP = """ITEM: TIMESTEP
100
ITEM: NUMBER OF ATOMS
3
ITEM: BOX BOUNDS pp pp pp
0.0 10.0
-5 5
0.0 1.0e1
ITEM: ATOMS id type x y z
2 1 1.5 2.5 0.0
1 2 0.25 -0.75 3
3 1 9.5 9.25 1e-1
"""
NEIGH = """id cn neighborlist
1 2 2 3
2 3 1 3 4
3 1 1
"""


def _readcsv_custom(eo, real, pl, case):
    """the C19 contract represents the frame by (path, header line a, first row a+1, number of rows b): check that the real frame
    IS the words of line a as column names and the tokens of lines a+1 .. a+b as rows"""
    text = case[0]["__file__"]
    lines = [ln.split() for ln in text.split("\n")]
    o = eo.value.content
    a, first, b = int(o["header_line"]), int(o["first_row"]), int(o["nrows"])
    diffs = []
    ret = real["ret"]
    if ret["t"] != "df":
        return [f"real result is {ret['t']}"]
    cols = [c["v"] for c in ret["columns"]]
    if cols != lines[a]:
        diffs.append(f"columns: contract says words of line {a} = {lines[a]}, real {cols}")
    if ret["n"] != b:
        diffs.append(f"rows: contract {b}, real {ret['n']}")
    for i in range(min(b, ret["n"])):
        want = [float(x) for x in lines[first + i]]
        got = [float(c["v"][i]) for c in ret["cols"]]
        if want != got:
            diffs.append(f"row {i}: contract says tokens of line {first + i} = {want}, real {got}")
    return diffs


def register(rng):
    E("str.split", "s", "(s.split(), len(s.split()), s.split()[0], s.split()[-1], s.split()[1:3])", [["ITEM: ATOMS id type x y z"], ["  a   b\tc \n"], [""], ["single"]], ["str.split"], cat="text")
    E("str.split:sep", "s", "(s.split(','), s.split(':')[0])", [["a,b,,c"], ["x: y"]], ["str.split"], cat="text")
    E("str.predicates", "s", "(s.startswith('ITEM'), s.endswith('.csv'), s.lower(), s.upper(), s.strip(), s.isnumeric(), s.isdigit(), 'TEM' in s, s == 'ITEM')", [["ITEM"], ["out.csv"], [" 12 "], ["12"], ["-3"], ["1.5"]], ["str.startswith", "str.endswith"], cat="text")
    E("str.index-slice", "s", "(s[0], s[-1], s[:4], s[:-4], s[2:], s[10:], len(s))", [["result.csv"]], [], cat="text")
    E("str.index-out-of-range", "s", "s[20]", [["abc"]], [], cat="text")
    E("str.join:words", "L", "(' '.join(L), ','.join(L), ''.join(L))", [[["a", "b", "c"]], [[]], [["x"]]], ["str.join"], cat="text")
    E("str.join:map-str-array", "a", "' '.join(map(str, a))", [[Iv([3, 1, 2])], [Iv([7])], [Iv([], shape=(0,))], [F([0.5, 2.0, -1.25])]], ["str.join", "map", "str"], cat="text")
    E("str.join:map-str-list", "L", "' '.join(map(str, L))", [[[3, 1, 2]]], ["str.join", "map", "str"], cat="text")
    E("str.join:generator", "a", "' '.join(str(x) for x in a)", [[[3, 1]]], ["str.join", "str"], cat="text")
    E("str.format:percent-int", "i, j", "('%d %d' % (i, j), '%d' % i, 'id=%d n=%d\\n' % (i, j), '%d' % (i + 1))", [[3, -4], [0, 12]], [], cat="text")
    E("str.format:percent-d-of-float", "x", "'%d' % x", [[2.9], [-2.9], [3.0]], [], cat="text")
    E("str.format:percent-float", "x, y", "('%.6f' % x, '%.6f %.6f' % (x, y), '%.8f' % y, '%f' % x, '%.3f' % x, '%d %.6f' % (2, y))", [[0.12345678912, -3.999999996], [2.0, 1e-7], [1234.5, 0.5]], [], cat="text")
    E("str.format:percent-e-g", "x", "('%e' % x, '%g' % x, '%.3e' % x)", [[0.000123456], [123456.789]], [], cat="text")
    E("str.format:percent-s", "s, i", "('%s %s' % (s, i), 'file_%s.dat' % s, '%s' % i)", [["abc", 3]], [], cat="text")
    E("str.format:percent-literal", "i", "'%d%%' % i", [[5]], [], cat="text")
    E("str.format:percent-arg-count", "i", "'%d %d' % (i,)", [[5]], [], cat="text")
    E("str.format:percent-too-many", "i", "'%d' % (i, i)", [[5]], [], cat="text")
    E("str.format:fstring", "i, x, s", "(f'{i}', f'n={i} x={x:.6f}', f'{s}_{i}.csv', f'{x:.8f}', f'{i:d}', f'{x}', f'{i + 1} {x * 2:.6f}')", [[3, 0.12345678912, "out"], [-1, 2.0, ""]], [], cat="text")
    E("str.format:fstring-other-spec", "x", "f'{x:10.3f}'", [[1.5]], [], cat="text")
    E("str.format:fstring-array-element", "a", "f'{a[0]} {a[1]:.6f}'", [[F([1.5, 2.25])]], [], cat="text")
    E("str.format:fstring-join-pattern", "a, n", "':'.join([str(i) for i in np.round(a / n, 3)])", [[Iv([1, 3]), 4]], ["np.round", "str.join"], cat="text")
    E("str.concat", "s, i", "(s + '.txt', s + str(i) + '.dat', s * 2, 'a' + s + 'b')", [["out", 3]], ["str"], cat="text")
    E("str.repeat-format-pattern", "n", "'%d ' * 2 + '%.6f ' * n", [[3], [0]], [], cat="text")
    E("str:int-float-of-tokens", "s", "(int(s.split()[0]), float(s.split()[1]), int(s.split()[0]) - 1, [float(j) for j in s.split()[1:]], [int(j) - 1 for j in s.split()[2:]])", [["12 0.5 3 4"], ["7 1e-3 9"]], ["int", "float", "str.split"], cat="text")
    E("str:int-of-float-token", "s", "int(s.split()[1])", [["1 2.0"], ["1 abc"]], ["int"], cat="text")
    # reading files
    P("file:readline-sequence", "path", """
        f = open(path, 'r')
        a = f.readline()
        b = f.readline().split()
        c = f.readline()
        n = int(f.readline())
        f.close()
        return a.split(), b, c.split()[1], n, int(b[0]) + n
    """, [[FILE(DUMP)]], ["open", "file.readline", "file.close", "str.split", "int"], cat="file")
    P("file:with-open-readline-loop", "path", """
        rows = []
        with open(path, 'r', encoding='utf-8') as f:
            header = f.readline().split()
            for i in range(3):
                item = f.readline().split()
                rows.append([int(item[0]) - 1, int(item[1])] + [int(j) - 1 for j in item[2:2 + int(item[1])]])
        return header, rows
    """, [[FILE(NEIGH)]], ["open", "file.readline", "str.split", "int", "list.append"], cat="file")
    P("file:readline-eof", "path", """
        f = open(path)
        out = []
        for k in range(4):
            line = f.readline()
            out.append(bool(line))
            if not line:
                break
        return out
    """, [[FILE("a b\n\nc\n")], [FILE("")], [FILE("only")]], ["open", "file.readline", "bool"], cat="file")
    P("file:readline-while-true", "path", """
        f = open(path)
        n = 0
        tot = 0.0
        while True:
            line = f.readline()
            if not line:
                break
            item = line.split()
            n += 1
            tot += float(item[-1])
        f.close()
        return n, tot
    """, [[FILE("1 0.5\n2 1.5\n3 -1\n")], [FILE("")]], ["open", "file.readline", "float", "str.split"], cat="file")
    P("file:atom-lines-into-array", "path, n", """
        pos = np.zeros((n, 3))
        typ = np.zeros(n, dtype=np.int32)
        with open(path) as f:
            for k in range(9):
                f.readline()
            for i in range(n):
                item = f.readline().split()
                k = int(item[0]) - 1
                typ[k] = int(item[1])
                pos[k] = [float(j) for j in item[2:5]]
        return pos, typ
    """, [[FILE(DUMP), 3]], ["open", "file.readline", "np.zeros", "int", "float"], cat="file")
    P("file:atom-lines-store-tokens-directly", "path, n", """
        pos = np.zeros((n, 3))
        with open(path) as f:
            for k in range(9):
                f.readline()
            for i in range(n):
                item = f.readline().split()
                pos[int(item[0]) - 1] = item[2:5]
        return pos
    """, [[FILE(DUMP), 3]], ["open", "file.readline", "np.zeros"], cat="file")
    P("file:box-bounds-pattern", "path", """
        with open(path) as f:
            for k in range(5):
                f.readline()
            b = []
            for k in range(3):
                item = f.readline().split()
                b.append([float(item[0]), float(item[1])])
        bb = np.array(b)
        return bb, bb[:, 1] - bb[:, 0], np.diag(bb[:, 1] - bb[:, 0])
    """, [[FILE(DUMP)]], ["open", "file.readline", "np.array", "np.diag", "float"], cat="file")
    P("file:readlines", "path", """
        with open(path) as f:
            lines = f.readlines()
        return len(lines), lines[1].split(), [len(x.split()) for x in lines], lines[-1].split()[0]
    """, [[FILE(DUMP)], [FILE("a\n")]], ["open", "file.readlines", "str.split"], cat="file")
    P("file:readlines-after-readline", "path", """
        f = open(path)
        f.readline()
        rest = f.readlines()
        return len(rest), rest[0].split()
    """, [[FILE("h1 h2\n1 2\n3 4\n")]], ["open", "file.readline", "file.readlines"], cat="file")
    P("file:keyword-in-line", "path", """
        f = open(path)
        out = []
        for k in range(5):
            item = f.readline().split()
            out.append('xy' in item)
            out.append('ITEM:' in item)
        return out
    """, [[FILE("ITEM: BOX BOUNDS xy xz yz pp pp pp\n0 1\nITEM: ATOMS\n\nxyz\n")]], ["open", "file.readline"], cat="file")
    P("file:missing", "path", "f = open(path)\nreturn f.readline()", [["/nonexistent/libcheck/file.txt"]], ["open"], cat="file")
    # writing files
    P("file:write", "path, ids, cn", """
        with open(path, 'w', encoding='utf-8') as f:
            f.write('id     cn     neighborlist\\n')
            for i in range(len(ids)):
                f.write('%d %d ' % (ids[i], cn[i]))
                f.write(' '.join(map(str, np.arange(cn[i]) + 1)))
                f.write('\\n')
        return 0
    """, [[OUT(".dat"), Iv([1, 2, 3]), Iv([2, 0, 3])]], ["open", "file.write", "str.join", "map", "np.arange"], cat="file")
    P("file:write-floats", "path, a", """
        f = open(path, 'w')
        f.write('x y\\n')
        for i in range(a.shape[0]):
            f.write('%.6f %.6f\\n' % (a[i, 0], a[i, 1]))
        f.write(f'{a.shape[0]} rows\\n')
        f.close()
        return 0
    """, [[OUT(".dat"), F([[0.12345678912, -3.0], [2.0, 1e-7]])]], ["open", "file.write", "file.close"], cat="file")
    P("file:array2string-pattern", "path, a", """
        np.set_printoptions(threshold=np.inf, linewidth=np.inf)
        with open(path, 'w') as f:
            f.write('id cn neighborlist\\n')
            f.write(re.sub(r'[\\[\\]]', ' ', np.array2string(a)))
            f.write('\\n')
        return 0
    """, [[OUT(".dat"), Iv([[1, 2, 5, 7], [2, 1, 3, 0], [13, 0, 0, 0]])], [OUT(".dat"), Iv([[1, 2]])]], ["np.array2string", "re.sub", "np.set_printoptions", "file.write"], cat="file")
    P("file:array2string-without-printoptions", "path, a", """
        with open(path, 'w') as f:
            f.write(re.sub(r'[\\[\\]]', ' ', np.array2string(a)))
        return 0
    """, [[OUT(".dat"), Iv([[1, 2], [3, 4]])]], ["np.array2string", "re.sub"], cat="file")
    P("file:write-read-position", "path", "f = open(path, 'w')\nf.write('a\\n')\nreturn f.readline()", [[OUT(".txt")]], ["open", "file.write"], cat="file")
    # pandas.read_csv (C19: skiprows / nrows frame of a log file)
    E("pd.read_csv:whitespace", "path", "pd.read_csv(path, sep=r'\\s+', skiprows=1, nrows=2)", [[FILE("garbage line\nStep Temp Press\n0 1.5 2.5\n10 1.25 2.75\n20 9 9\n")]], ["pd.read_csv"], cat="file", props=["C19"], custom=_readcsv_custom)
