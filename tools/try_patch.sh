#!/bin/bash
# usage: tools/try_patch.sh <prop> <patch.diff> [extra ./check args]   — applies a patch to a scratch copy of the package and runs the check on it
prop=$1; pf=$2; shift 2
src=${PYVC_REPO:-/repo}
tmp=$(mktemp -d /tmp/pyvc-mut.XXXXXX)
cp -r $src/PyMatterSim $tmp/PyMatterSim
if ! patch -s -p1 -d $tmp < $pf; then echo "PATCH DID NOT APPLY"; rm -rf $tmp; exit 9; fi
(cd "$(dirname "$0")/.." && PYVC_REPO=$tmp PYVC_NO_EVIDENCE=1 PYVC_REPLAY_DIR=$tmp/replays ./check $prop --tier quick "$@" 2>&1 | grep -E "^\[pyvc\]|VIOLATION|UNDECIDED|CHECKER|KNOWN|FAILED" | head -${LINES_MAX:-8}; echo "exit=${PIPESTATUS[0]}")
rm -rf $tmp
