"""self-test of the alias pass (pyvc/purity.py) on a synthetic package: every `bad_*` function must get a potential store
into an input, every `ok_*` function none; `hid_*` must fail no-hidden-state, `nd_*` determinism.
usage: python3 tools/purity_selftest.py   (exit 0 = all as expected)"""
import os, shutil, sys, tempfile
sys.path.insert(0, os.path.dirname(os.path.dirname(os.path.abspath(__file__))))
from pyvc import purity as P

SRC = '''
import numpy as np
import numpy.typing as npt
from time import time
import random
from ..utils.helpers import ident, clobber, pick, Holder
CACHE = {}
counter = 0

def bad_alias(a):
    b = a
    b[0] = 1
def bad_field(snap):
    p = snap.positions
    p -= 1
def bad_reshape_sort(a):
    b = a.reshape(-1)
    b.sort()
def bad_out(a):
    np.add(a, 1, out=a)
def bad_slice(a):
    b = a[1:]
    b *= 2
def ok_mask(a: npt.NDArray):
    b = a[a > 0]
    b *= 2
    return b
def ok_copy(a):
    b = a.copy()
    b[0] = 1
    return b
def bad_loop_field(snaps):
    for s in snaps.snapshots:
        s.positions[:, 0] += 1
def bad_helper_ret(a):
    b = ident(a)
    b[0] = 1
def bad_helper_mut(a):
    clobber(a)
def bad_helper_kw(a):
    clobber(x=a)
def bad_asarray(a):
    b = np.asarray(a)
    b[0] = 0
def bad_index(a, idx):
    a[idx] = 0
def bad_default(d={}):
    d['x'] = 1
def bad_T(a):
    b = a.T
    b[0, 0] = 1
def bad_ifexp(a, c):
    b = a if c else a.copy()
    b[0] = 1
def bad_list_elem(a):
    lst = [a]
    lst[0][0] = 1
def ok_strong(a):
    x = a
    x = x + 1
    x[0] = 2
    return x
def bad_shuffle(a):
    np.random.seed(0)
    np.random.shuffle(a)
def bad_loop_rows(snapshot):
    pos = snapshot.positions
    for i in range(3):
        pos[i] = 0
def ok_rebind(a):
    a = a.copy()
    a -= 1
    return a
def bad_astype_nocopy(a):
    b = a.astype(float, copy=False)
    b[0] = 1
def ok_astype(a):
    b = a.astype(float)
    b[0] = 1
def bad_iter_rows(a: npt.NDArray):
    for row in a:
        row[0] = 1
def bad_ravel(a):
    b = a.ravel()
    b[0] = 1
def ok_flatten(a):
    b = a.flatten()
    b[0] = 1
def bad_unpack(a):
    x, y = a, a.copy()
    y[0] = 1
    x[0] = 1
def ok_unpack(a):
    x, y = a, a.copy()
    y[0] = 1
def bad_while(a, c):
    b = a.copy()
    while c:
        b[0] = 1
        b = a
def bad_df(df):
    df['x'] = 1
def bad_row_const(a):
    b = a[0]
    b[1] = 5
def bad_row_var(a):
    i = 3
    b = a[i]
    b[0] = 1
def ok_scalar(a, n: int):
    n += 1
    return n
def bad_sort(a):
    a.sort()
def ok_npsort(a):
    return np.sort(a)
def bad_fill(a):
    a.fill(0)
def bad_closure(a):
    def g():
        a[0] = 1
    g()
def bad_try(a):
    try:
        b = a
        risky()
        b = a.copy()
    except Exception:
        pass
    b[0] = 1
def bad_fill_diagonal(a):
    np.fill_diagonal(a, 0)
def bad_put(a):
    np.put(a, [0], 1)
def bad_copyto(a):
    np.copyto(a, 0)
def bad_view(a):
    b = a.view()
    b[...] = 0
def bad_np_reshape(a):
    b = np.reshape(a, (-1,))
    b[0] = 0
def bad_cols(snap):
    b = snap.positions[:, :2]
    b /= 2
def bad_pick(snaps):
    x = pick(snaps)[1][0]
    x[0, 0] += 1
def bad_setattr(obj):
    setattr(obj, 'x', 1)
def bad_attr_aug(snap):
    snap.positions += 1
def bad_attr_set(snap):
    snap.positions = 0
def bad_append(lst):
    lst.append(1)
def bad_dict_update(d):
    d.update(x=1)
def ok_local_list(snaps):
    out = []
    for s in snaps.snapshots:
        out.append(s.positions)
    return out
def bad_local_list_elem(snaps):
    out = []
    for s in snaps.snapshots:
        out.append(s.positions)
    out[0][0, 0] = 1
def bad_holder(snaps):
    h = Holder(snaps)
    h.centre()
def bad_holder_attr(snaps):
    h = Holder(snaps)
    h.pos[0] = 1
def ok_holder(snaps):
    h = Holder(snaps)
    return h.mean()
def bad_ufunc_at(a, idx):
    np.add.at(a, idx, 1)
def bad_starred(*arrays):
    for x in arrays:
        x[0] = 1
def bad_zip(a, b):
    for x, y in zip(a, b):
        x[0] = y
def bad_enumerate(snaps):
    for n, s in enumerate(snaps.snapshots):
        s.positions[n] = 0
def ok_enumerate_idx(a: npt.NDArray):
    out = np.zeros(3)
    for n, s in enumerate(a):
        out[n] = s.sum()
    return out
def bad_inplace_kw(df):
    df.sort_values('x', inplace=True)
def bad_del(d):
    del d['x']
def bad_min_elem(arrays):
    m = min(arrays)
    m[0] = 1
def bad_dict_get(d):
    v = d.get('x')
    v[0] = 1
def bad_values(df):
    v = df.values
    v /= 2
def ok_arith_chain(snap):
    r = snap.positions - snap.positions[0]
    r /= 2
    return r
def bad_aug_then_alias(a, c):
    b = np.zeros(3)
    if c:
        b = a
    b += 1
def hid_cache_write(x):
    CACHE[x] = 1
def hid_cache_read(x):
    return CACHE.get(x)
def hid_global(x):
    global counter
    counter += 1
    return counter
def nd_rand():
    return np.random.rand(3)
def nd_time():
    t = time()
    return t
def nd_random_choice(a):
    k = random.choice([1, 2])
    return a[k]
def ok_time_log(a):
    t0 = time()
    logger.info(f"{time() - t0}")
    return a.sum()
'''
HELP = '''
import numpy as np
def ident(x):
    return x
def clobber(x):
    x[0] = 1
def pick(snaps):
    boxes, pts = [], []
    for s in snaps.snapshots:
        if s.flag:
            p = s.positions - 1
        else:
            p = s.positions
        pts.append(p)
        boxes.append(1)
    return boxes, pts
class Holder:
    def __init__(self, snaps):
        self.pos = snaps.snapshots[0].positions
        self.n = 3
    def centre(self):
        self.pos -= self.pos.mean(axis=0)
    def mean(self):
        return self.pos.mean()
'''


def main():
    tmp = tempfile.mkdtemp(prefix="pyvc-purity-selftest.")
    try:
        for sub in ("static", "utils"):
            os.makedirs(os.path.join(tmp, "PyMatterSim", sub))
        open(os.path.join(tmp, "PyMatterSim", "static", "x.py"), "w").write(SRC)
        open(os.path.join(tmp, "PyMatterSim", "utils", "helpers.py"), "w").write(HELP)
        pkg = P.analyse_package(tmp)
        wrong = []
        n = 0
        for name, fi in sorted(pkg.funcs.items()):
            short = fi.qualname
            if ".static.x." not in name:
                continue
            n += 1
            fr = P.frame_report(fi)
            hb, _ = P.hidden_state_report(pkg, fi)
            db, _ = P.determinism_report(fi)
            if short.startswith("bad_") and not fr:
                wrong.append(f"{short}: store into an input NOT found")
            if short.startswith("ok_") and (fr or db or [b for b in hb]):
                wrong.append(f"{short}: false alarm {[s.text for s in fr]} {hb} {db}")
            if short.startswith("hid_") and not hb:
                wrong.append(f"{short}: hidden state NOT found")
            if short.startswith("nd_") and not db:
                wrong.append(f"{short}: nondeterminism NOT found")
        print(f"{n} synthetic functions, {len(wrong)} unexpected")
        for w in wrong:
            print("  ", w)
        return 1 if wrong else 0
    finally:
        shutil.rmtree(tmp, ignore_errors=True)


if __name__ == "__main__":
    sys.exit(main())
