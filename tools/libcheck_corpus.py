"""Corpus of tools/libcheck.py: small straight-line snippets, each exercising ONE library operation in the way the code under
contract in /repo/PyMatterSim uses it, with concrete inputs (small int / float / bool / complex arrays incl. 0-length and 1-element
axes, negative numbers, rounding ties, views).  `build(seed)` returns the list of snippet dicts:

    id, src (a `def f(...)`), cases (list of argument lists of JSON descriptors), funcs (names of the library contracts exercised,
    as they appear in evidence/*.json `lib_used`), cat (value | alias | rel | text | file | pandas), optional: kind="rel"
    (relational contract: bind the result symbols to the real output and check the assumed facts), limitation="reason" (a
    disagreement that is a declared limit of the value model / concrete mode), props=[...] (restrict the tables), tol, header.

The sections live in libcheck_corpus_*.py modules (one per area) and register through `S` / `E` / `P` / `AL` below.
"""
from __future__ import annotations

import random

SNIPS = []

# ---- argument descriptors -------------------------------------------------------------------------------------------


def _nd(data, dtype, shape=None):
    def conv(x):
        if isinstance(x, (list, tuple)):
            return [conv(y) for y in x]
        if isinstance(x, complex):
            return {"__cx__": [x.real, x.imag]}
        return x
    d = {"__nd__": conv(data), "dtype": dtype}
    if shape is not None:
        d["shape"] = list(shape)
    return d


def F(data, shape=None):
    return _nd(data, "float64", shape)


def Iv(data, shape=None):
    return _nd(data, "int64", shape)


def B(data, shape=None):
    return _nd(data, "bool", shape)


def C(data, shape=None):
    return _nd(data, "complex128", shape)


def F32(data, shape=None):
    return _nd(data, "float32", shape)


def I32(data, shape=None):
    return _nd(data, "int32", shape)


def C64(data, shape=None):
    return _nd(data, "complex64", shape)


def T(*xs):
    return {"__tuple__": list(xs)}


def D(*pairs):
    return {"__dict__": [list(p) for p in pairs]}


def CX(re_, im_):
    return {"__cx__": [re_, im_]}


def FILE(text):
    return {"__file__": text}


def OUT(suffix=".txt"):
    return {"__out__": suffix}


# ---- snippet constructors -------------------------------------------------------------------------------------------


def S(id, src, cases, funcs, cat="value", **opts):
    src = src.strip("\n") + "\n"
    d = {"id": id, "src": src, "cases": [list(c) if isinstance(c, (list, tuple)) else [c] for c in cases], "funcs": list(funcs), "cat": cat}
    d.update(opts)
    SNIPS.append(d)
    return d


def E(id, params, expr, cases, funcs, **opts):
    """expression snippet: def f(params): return expr"""
    return S(id, f"def f({params}):\n    return {expr}\n", cases, funcs, **opts)


def P(id, params, body, cases, funcs, **opts):
    """statement snippet: body is a block of lines (dedented), must `return`"""
    import textwrap
    body = textwrap.dedent(body).strip("\n")
    src = f"def f({params}):\n" + "\n".join("    " + ln for ln in body.split("\n")) + "\n"
    return S(id, src, cases, funcs, **opts)


def AL(id, op, cases, funcs, mut="b[0] = 99", params="a", **opts):
    """aliasing snippet: does a store through the result of `op` reach the argument?"""
    return P(id, params, f"b = {op}\n{mut}\nreturn a", cases, funcs, cat="alias", **opts)


NOT_LIB = ("Re)", "Vieta relations", "bounds the end elements)", "first row", "given fields replaced)", "header line", "kth < n required)",
           "no order)", "nrows) as (file", "partition property", "row count)")


def is_lib_name(n):
    """evidence `trusted_base` texts are split at ', ': fragments of prose are not names of library contracts"""
    if n in NOT_LIB or " " in n.strip() and not n.startswith(("np.", "pd.", "arr.", "df.")):
        return False
    return " " not in n and "(" not in n and ")" not in n


def build(seed=20260930):
    import importlib
    SNIPS.clear()
    rng = random.Random(seed)
    for name in ("scalars", "numpy_elem", "numpy_make", "numpy_index", "numpy_reduce", "alias", "pandas", "text", "rel", "random"):
        try:
            m = importlib.import_module(f"libcheck_corpus_{name}")
        except ModuleNotFoundError as e:
            if f"libcheck_corpus_{name}" in str(e):
                continue
            raise
        importlib.reload(m)
        m.register(rng)
    return list(SNIPS)
