#!/venv/bin/python
"""Replay harness: runs under the repository's interpreter (/venv/bin/python, the real package with
the real numpy/pandas/scipy), builds concrete inputs from a counter-model written by the verifier,
calls the REAL function and evaluates the failed contract clause concretely.

usage: replay.py <replays/<ID>/<obligation>.json>
prints  REPLAY-RESULT {"ran":..., "failed":..., "detail":...}
"""
import importlib
import json
import os
import sys
import traceback

VERIF = os.path.dirname(os.path.abspath(__file__))
sys.path.insert(0, VERIF)
# the solver bindings are only needed because contract modules import the symbolic backend;
# appended last so that the repository's own numpy/pandas/scipy win
sys.path.append("/opt/veriftools/pyvenv/lib/python3.11/site-packages")


def main():
    path = sys.argv[1]
    with open(path) as f:
        rec = json.load(f)
    repo = rec.get("repo") or os.environ.get("PYVC_REPO", "/repo")
    sys.path.insert(0, repo)
    os.environ["PYVC_REPO"] = repo
    prop = rec["property"]
    out = {"ran": False, "failed": False}
    try:
        mod = importlib.import_module(f"contracts.{prop}")
        if rec.get("qualname") is None and hasattr(mod, "replay_extra"):
            out = mod.replay_extra(rec)
        else:
            unit = None
            label = rec.get("unit") or ""
            cands = [u for u in mod.UNITS if u.qualname == rec.get("qualname") and u.module == rec.get("module") and rec.get("case") in u.cases()]
            named = [u for u in cands if label == (f"{u.name}[{rec.get('case')}]" if rec.get("case") else u.name)]
            unit = (named or cands or [None])[0]
            if unit is None:
                out = {"ran": False, "error": "unit not found"}
            else:
                ob = rec["obligation"]
                clause = ob[len(label) + 1:] if label and ob.startswith(label + ":") else (ob.split(":", 1)[1] if ":" in ob else "")
                out = unit.replay(rec.get("case"), clause, rec.get("model") or {}, int(rec.get("seed") or 0))
    except Exception as e:
        out = {"ran": False, "error": f"{type(e).__name__}: {e}", "trace": traceback.format_exc()[-1500:]}
    print("REPLAY-RESULT " + json.dumps(out, default=str))


if __name__ == "__main__":
    main()
